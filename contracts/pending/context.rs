//@module context::verif_kani
// Harness-side constructor for a CompilerContext without the built-in definitions: every table is
// empty (CompilerContext::new would fill the difficulty-flag BTreeMaps and the definition HashMaps,
// which CBMC cannot get through).  Enough for passes that are run on literal-only expressions.

use super::*;

pub(crate) fn bare_context<'ctx>(scope: &'ctx Scope) -> CompilerContext<'ctx> {
    CompilerContext {
        emitter: &scope.emitter,
        mapfiles: Default::default(),
        resolutions: Default::default(),
        defs: Default::default(),
        gensym: Default::default(),
        consts: Default::default(),
        initial_ribs: Default::default(),
        diff_flag_defs: diff_flags::verif_kani::defs_with_default_enable(0),
        script_debug_info: Default::default(),
        unused_node_ids: UnusedIds::new(),
        unused_loop_ids: UnusedIds::new(),
        _scope: scope,
        _make_invariant: Default::default(),
    }
}
