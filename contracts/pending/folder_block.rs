// ---------------------------------------------------------------------------------------
// The folder's own tree walker (Visitor::visit_expr) on literal-only trees: "Replacing a constant
// subexpression by its compile-time value never changes what a script does" - the node is replaced
// by the literal of the value the operator table gives for its (already folded) children, the
// ternary keeps the branch selected by "condition != 0", and an undefined operation is reported as an
// error instead of being folded or silently left in place.

fn lit_box(x: i32) -> Box<Sp<ast::Expr>> { Box::new(sp!(ast::Expr::from(x))) }

fn fold(e: &mut Sp<ast::Expr>) -> bool {
    // returns true if the folder reported an error
    let scope = crate::context::Scope::new(crate::verif_common::noop_emitter());
    let ctx = crate::context::verif_kani::bare_context(&scope);
    let errored = {
        let mut v = Visitor { ctx: &ctx, errors: ErrorFlag::new() };
        ast::VisitMut::visit_expr(&mut v, e);
        let r = v.errors.into_result(());
        match r { Ok(()) => false, Err(err) => { core::mem::forget(err); true } }
    };
    core::mem::forget(ctx);
    core::mem::forget(scope);
    errored
}

//@ C11 c11_folder_binop quick default constant folder: `a - b` of two literals is replaced by the literal of a - b (operands in source order), for all a, b
#[kani::proof]
#[kani::unwind(4)]
#[kani::stub(alloc::fmt::format, crate::verif_common::stub_fmt_format)]
#[kani::stub(crate::error::ErrorReported::new, crate::verif_common::stub_error_reported_new)]
fn c11_folder_binop() {
    let a: i32 = kani::any();
    let b: i32 = kani::any();
    let mut e = sp!(ast::Expr::BinOp(lit_box(a), sp!(B::Sub), lit_box(b)));
    let errored = fold(&mut e);
    assert!(!errored, "a - b reported an error");
    assert!(e.as_const_int() == Some(wrap32(a as i64 - b as i64)), "folded to a different value");
    core::mem::forget(e);
}
//@ C11 c11_folder_ternary quick default constant folder: `c ? a : b` with a literal condition is replaced by a when c != 0 (negative included) and by b when c == 0
#[kani::proof]
#[kani::unwind(4)]
#[kani::stub(alloc::fmt::format, crate::verif_common::stub_fmt_format)]
#[kani::stub(crate::error::ErrorReported::new, crate::verif_common::stub_error_reported_new)]
fn c11_folder_ternary() {
    let c: i32 = kani::any();
    let a: i32 = kani::any();
    let b: i32 = kani::any();
    let mut e = sp!(ast::Expr::Ternary { cond: lit_box(c), question: sp!(()), left: lit_box(a), colon: sp!(()), right: lit_box(b) });
    let errored = fold(&mut e);
    assert!(!errored, "ternary reported an error");
    assert!(e.as_const_int() == Some(if c != 0 { a } else { b }), "ternary folded to the wrong branch");
    core::mem::forget(e);
}
//@ C11 c11_folder_div_zero quick default constant folder: `a / 0` and `a % 0` with literal operands are reported as errors (not folded, not silently left for run time)
#[kani::proof]
#[kani::unwind(4)]
#[kani::stub(alloc::fmt::format, crate::verif_common::stub_fmt_format)]
#[kani::stub(crate::error::ErrorReported::new, crate::verif_common::stub_error_reported_new)]
fn c11_folder_div_zero() {
    let a: i32 = kani::any();
    let op = if kani::any() { B::Div } else { B::Rem };
    let mut e = sp!(ast::Expr::BinOp(lit_box(a), sp!(op), lit_box(0)));
    let errored = fold(&mut e);
    assert!(errored, "division by a constant zero was not reported");
    core::mem::forget(e);
}

