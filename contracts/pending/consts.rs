//@module context::consts::verif_kani
// Contracts for the const-variable evaluator's tree walker, Evaluator::_const_eval in
// src/context/consts.rs (property C11: "naming a constant expression with `const` gives the same
// compiled output as writing it inline").  Expression trees are built from LITERAL leaves, so the
// walker never consults the definition tables (they are empty); what is decided is the walker's own
// logic: operands evaluated in order and handed to the operator table in order, the ternary selects
// by "condition != 0", an undefined operation is an error and not a value.

use super::*;
use core::mem::forget;
use crate::verif_common::noop_emitter;

fn lit(x: i32) -> Box<Sp<ast::Expr>> { Box::new(sp!(ast::Expr::from(x))) }

fn eval(e: &Sp<ast::Expr>) -> Result<ScalarValue, ErrorReported> {
    let mut consts = Consts::default();
    let defs = Defs::new();
    let resolutions = Resolutions::new();
    let emitter = noop_emitter();
    let r = {
        let mut ev = Evaluator { consts: &mut consts, eval_stack: Vec::new(), defs: &defs, resolutions: &resolutions, emitter: &emitter };
        let r = ev._const_eval(e);
        forget(ev);
        r
    };
    forget(consts); forget(defs); forget(resolutions); forget(emitter);
    r
}

//@ C11 c11_constvar_ternary quick default const-variable evaluator: `c ? a : b` with literal operands evaluates to a when c != 0 (any non-zero c, negative included) and to b when c == 0
#[kani::proof]
#[kani::unwind(4)]
#[kani::stub(alloc::fmt::format, crate::verif_common::stub_fmt_format)]
#[kani::stub(crate::error::ErrorReported::new, crate::verif_common::stub_error_reported_new)]
fn c11_constvar_ternary() {
    let c: i32 = kani::any();
    let a: i32 = kani::any();
    let b: i32 = kani::any();
    let e = sp!(ast::Expr::Ternary { cond: lit(c), question: sp!(()), left: lit(a), colon: sp!(()), right: lit(b) });
    match eval(&e) {
        Ok(ScalarValue::Int(v)) => assert!(v == if c != 0 { a } else { b }, "ternary selected the wrong branch"),
        Ok(other) => { forget(other); assert!(false, "ternary of ints must be an int"); },
        Err(err) => { forget(err); assert!(false, "ternary of literals must have a value"); },
    }
    forget(e);
}

//@ C11 c11_constvar_binop_order quick default const-variable evaluator: `a - b` and `a << b` with literal operands hand the operands to the operator table in source order (result = a - b, not b - a), and `a / 0` is an error
#[kani::proof]
#[kani::unwind(4)]
#[kani::stub(alloc::fmt::format, crate::verif_common::stub_fmt_format)]
#[kani::stub(crate::error::ErrorReported::new, crate::verif_common::stub_error_reported_new)]
fn c11_constvar_binop_order() {
    let a: i32 = kani::any();
    let b: i32 = kani::any();
    let e = sp!(ast::Expr::BinOp(lit(a), sp!(ast::BinOpKind::Sub), lit(b)));
    match eval(&e) {
        Ok(ScalarValue::Int(v)) => assert!(v == a.wrapping_sub(b), "operands handed over in the wrong order"),
        Ok(other) => { forget(other); assert!(false, "int - int must be an int"); },
        Err(err) => { forget(err); assert!(false, "a - b must have a value"); },
    }
    forget(e);
    let d = sp!(ast::Expr::BinOp(lit(a), sp!(ast::BinOpKind::Div), lit(0)));
    match eval(&d) {
        Ok(v) => { forget(v); assert!(false, "a / 0 must be reported as an error, not evaluated"); },
        Err(err) => forget(err),
    }
    forget(d);
}

//@ C11 c11_constvar_nested quick default const-variable evaluator: a nested tree `(a - b) * (c ? -a : ~b)` of literals evaluates bottom-up to the value the operator table gives for the evaluated children
#[kani::proof]
#[kani::unwind(4)]
#[kani::stub(alloc::fmt::format, crate::verif_common::stub_fmt_format)]
#[kani::stub(crate::error::ErrorReported::new, crate::verif_common::stub_error_reported_new)]
fn c11_constvar_nested() {
    let a: i32 = kani::any();
    let b: i32 = kani::any();
    let c: i32 = kani::any();
    let left = Box::new(sp!(ast::Expr::BinOp(lit(a), sp!(ast::BinOpKind::Sub), lit(b))));
    let neg = Box::new(sp!(ast::Expr::UnOp(sp!(ast::UnOpKind::Neg), lit(a))));
    let not = Box::new(sp!(ast::Expr::UnOp(sp!(ast::UnOpKind::BitNot), lit(b))));
    let right = Box::new(sp!(ast::Expr::Ternary { cond: lit(c), question: sp!(()), left: neg, colon: sp!(()), right: not }));
    let e = sp!(ast::Expr::BinOp(left, sp!(ast::BinOpKind::Add), right));
    let want = a.wrapping_sub(b).wrapping_add(if c != 0 { a.wrapping_neg() } else { !b });
    match eval(&e) {
        Ok(ScalarValue::Int(v)) => assert!(v == want, "nested constant expression evaluated to a different value"),
        Ok(other) => { forget(other); assert!(false, "must be an int"); },
        Err(err) => { forget(err); assert!(false, "must have a value"); },
    }
    forget(e);
}

#[cfg(kani)]
#[path = "/verif/.cache/playback/consts.rs"]
mod playback;
