// Vacuity guard for the Verus back end: `canary_true` must be accepted and `canary_false` must be
// rejected, otherwise no Verus result is believed (the check exits 2).
use vstd::prelude::*;
verus! {
proof fn canary_true(x: u32)
    ensures x & 0xff <= 255
{
    assert(x & 0xff <= 255) by (bit_vector);
}
proof fn canary_false(x: u32)
    ensures x & 0xff == x
{
}
}
fn main() {}
