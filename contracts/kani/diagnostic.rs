//@module diagnostic::verif_kani
// Harness-side constructor for a RootEmitter whose sink is given directly (RootEmitter::from_writer is
// private).  Going through RootEmitter::new_captured().with_writer(..) would instantiate - and drop - the
// real capturing writer, which puts the whole codespan renderer behind the `dyn WriteError` dispatch of
// every emission; with this constructor the only sink type that exists in a harness is the no-op one.

use super::*;

pub(crate) fn root_emitter_with<W: WriteError + 'static>(writer: W) -> RootEmitter {
    RootEmitter::from_writer(writer)
}
