//@module formats::ecl::ecl_10::verif_kani
// Contracts for the instruction-header writers/readers in src/formats/ecl/ecl_10.rs (property C03).
// The obligation bodies are shared: see contracts/kani/common.rs (instr_round_trip, instr_size_field,
// terminal_is_recognised).  One instantiation per format because the hook structs are private.

use super::*;
use crate::verif_common::{read_instr_never_panics, decode_label_never_panics, instr_time_is_stored, label_round_trip, instr_round_trip, instr_size_field, terminal_is_recognised, Stored, SizeField};

macro_rules! c03 {
    ($name:ident, $unwind:literal, $body:expr) => {
        #[kani::proof]
        #[kani::unwind($unwind)]
        #[kani::stub(alloc::fmt::format, crate::verif_common::stub_fmt_format)]
        #[kani::stub(crate::error::ErrorReported::new, crate::verif_common::stub_error_reported_new)]
        #[kani::stub(crate::io::nice_display_path, crate::verif_common::stub_nice_display_path)]
        #[kani::stub(crate::llir::fit_instr_field, crate::verif_common::stub_fit_instr_field)]
        #[kani::stub(crate::llir::forbid_reserved_opcode, crate::verif_common::stub_forbid_reserved_opcode)]
        fn $name() { $body }
    };
}
macro_rules! c16 {
    ($name:ident, $unwind:literal, $body:expr) => {
        #[kani::proof]
        #[kani::unwind($unwind)]
        #[kani::stub(alloc::fmt::format, crate::verif_common::stub_fmt_format)]
        #[kani::stub(crate::error::ErrorReported::new, crate::verif_common::stub_error_reported_new)]
        #[kani::stub(crate::io::nice_display_path, crate::verif_common::stub_nice_display_path)]
        #[kani::stub(crate::diagnostic::RootEmitter::emit, crate::verif_common::stub_root_emit)]
        #[kani::stub(crate::llir::fit_instr_field, crate::verif_common::stub_fit_instr_field)]
        #[kani::stub(crate::llir::forbid_reserved_opcode, crate::verif_common::stub_forbid_reserved_opcode)]
        fn $name() { $body }
    };
}
//@ C03 c03_ecl10_rt_n4 quick default ECL (TH10+): write_instr then read_instr returns the same instruction, field for field (time, opcode, param_mask, difficulty, arg_count, pop, blob), for every header value and every 4-byte argument blob; whatever does not fit is rejected, never stored differently; the written length is instr_size
c03!(c03_ecl10_rt_n4, 8, instr_round_trip::<4>(&ModernEclHooks, Stored { param_mask: true, difficulty: true, extra_arg: false, pop_and_arg_count: true, maybe_terminal: false, ignore_param_mask: false }, |_| true));
//@ C03 c03_ecl10_rt_n0 thorough default ECL (TH10+): write_instr then read_instr returns the same instruction, field for field (time, opcode, param_mask, difficulty, arg_count, pop, blob), for every header value and every 0-byte argument blob; whatever does not fit is rejected, never stored differently; the written length is instr_size
c03!(c03_ecl10_rt_n0, 8, instr_round_trip::<0>(&ModernEclHooks, Stored { param_mask: true, difficulty: true, extra_arg: false, pop_and_arg_count: true, maybe_terminal: false, ignore_param_mask: false }, |_| true));
//@ C03 c03_ecl10_rt_n12 thorough default ECL (TH10+): write_instr then read_instr returns the same instruction, field for field (time, opcode, param_mask, difficulty, arg_count, pop, blob), for every header value and every 12-byte argument blob; whatever does not fit is rejected, never stored differently; the written length is instr_size
c03!(c03_ecl10_rt_n12, 15, instr_round_trip::<12>(&ModernEclHooks, Stored { param_mask: true, difficulty: true, extra_arg: false, pop_and_arg_count: true, maybe_terminal: false, ignore_param_mask: false }, |_| true));
//@ C03 c03_ecl10_size_field quick default ECL (TH10+): for every blob length 0..=70000 either the writer rejects the instruction or the stored size field equals the true size (as the reader interprets it) and the written length is instr_size
c03!(c03_ecl10_size_field, 4, instr_size_field(&ModernEclHooks, Stored { param_mask: true, difficulty: true, extra_arg: false, pop_and_arg_count: true, maybe_terminal: false, ignore_param_mask: false }, SizeField { offset: 6, width: 2, counts_header: true, reader_max: 65535 }, 70000));

//@ C03 c03_label_ecl10 quick default ECL TH10+ label encoding (signed relative offset): round trip for every pair of offsets below 2^31
c03!(c03_label_ecl10, 2, label_round_trip(&ModernEclHooks, 1));

//@ C13 c13_ecl10_time_stored quick default ECL (TH10+): if write_instr accepts an instruction, the time read back from the written bytes is the requested time, for every i32 time (a time that does not fit the field must be rejected, never stored differently)
c03!(c13_ecl10_time_stored, 8, instr_time_is_stored::<4>(&ModernEclHooks, Stored { param_mask: true, difficulty: true, extra_arg: false, pop_and_arg_count: true, maybe_terminal: false, ignore_param_mask: false }, |_| true));

// ---------------------------------------------------------------------------------------
// C16, header level: see read_instr_never_panics / decode_label_never_panics in common.rs
//@ C16 c16_ecl10_read_size0 quick default ECL (TH10+): read_instr on arbitrary header bytes whose size field is 0 (smaller than the header) returns Ok or Err and never panics (no underflow, no failed assert, no out-of-range read)
c16!(c16_ecl10_read_size0, 20, read_instr_never_panics::<16>(&ModernEclHooks, 6, 2, 0));
//@ C16 c16_ecl10_read_size15 quick default ECL (TH10+): read_instr on arbitrary header bytes whose size field is 15 (one less than the header) returns Ok or Err and never panics (no underflow, no failed assert, no out-of-range read)
c16!(c16_ecl10_read_size15, 20, read_instr_never_panics::<16>(&ModernEclHooks, 6, 2, 15));
//@ C16 c16_ecl10_read_size16 quick default ECL (TH10+): read_instr on arbitrary header bytes whose size field is 16 (header only) returns Ok or Err and never panics (no underflow, no failed assert, no out-of-range read)
c16!(c16_ecl10_read_size16, 20, read_instr_never_panics::<16>(&ModernEclHooks, 6, 2, 16));
//@ C16 c16_ecl10_read_size20 quick default ECL (TH10+): read_instr on arbitrary header bytes whose size field is 20 (4 argument bytes) returns Ok or Err and never panics (no underflow, no failed assert, no out-of-range read)
c16!(c16_ecl10_read_size20, 24, read_instr_never_panics::<20>(&ModernEclHooks, 6, 2, 20));
//@ C16 c16_label_ecl10_no_panic quick default ECL TH10+ label decoding of an arbitrary 32-bit jump argument never panics
c16!(c16_label_ecl10_no_panic, 2, decode_label_never_panics(&ModernEclHooks));

//@ C16 c16_ecl10_read_size17 quick default ECL (TH10+): read_instr on arbitrary header bytes whose size field is 17 (one more than the header) returns Ok or Err and never panics (no underflow, no failed assert, no out-of-range read)
c16!(c16_ecl10_read_size17, 21, read_instr_never_panics::<17>(&ModernEclHooks, 6, 2, 17));

//@ C16 c16_ecl10_read_size65535 quick default ECL (TH10+): read_instr on arbitrary header bytes whose size field is 65535 (the largest 16-bit value) returns Ok or Err and never panics (no sign extension into an absurd allocation; the short buffer ends in an end-of-file error)
c16!(c16_ecl10_read_size65535, 20, read_instr_never_panics::<16>(&ModernEclHooks, 6, 2, 65535));
//@ C16 c16_ecl10_read_size32784 quick default ECL (TH10+): read_instr on arbitrary header bytes whose size field is 32784 (0x8010: negative if read as a signed 16-bit value) returns Ok or Err and never panics (no sign extension into an absurd allocation; the short buffer ends in an end-of-file error)
c16!(c16_ecl10_read_size32784, 20, read_instr_never_panics::<16>(&ModernEclHooks, 6, 2, 32784));

//@ C16 c16_ecl10_read_any20 quick default ECL (TH10+): read_instr on 20 ARBITRARY bytes (size field symbolic too: every value, including sizes beyond the buffer, which end in an end-of-file error) returns Ok or Err and never panics
c16!(c16_ecl10_read_any20, 24, read_instr_never_panics::<20>(&ModernEclHooks, 0, 0, 0));

// (write_string_list / read_string_list - the NUL-separated name lists - were tried with the transcoder
// stubbed in both directions: no verdict in 600 s; they stay listed as unverified.)

#[cfg(kani)]
#[path = "/verif/.cache/playback/ecl_10.rs"]
mod playback;
