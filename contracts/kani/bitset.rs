//@module bitset::verif_kani
// Contracts for src/bitset.rs (property C14: difficulty masks as sets of difficulty indices).
//
// The unbounded proofs of the BitSet32 methods are the Verus unit contracts/verus/bitset.rs.tmpl
// (verbatim text of the same functions).  The harnesses here are (a) the two methods Verus cannot
// take (`checked_shl` has no vstd specification), (b) the iterator as a whole, and (c) the Kani
// twins that produce a concrete counterexample when a Verus obligation fails.

use super::*;

fn spec_bit(mask: u32, i: u32) -> bool { (mask >> i) & 1 == 1 }

//@ C14 c14_with_upper_bound quick default with_upper_bound(len) keeps exactly the members < len: every bit i of the result is (bit i of self) && i < len, for all masks and all len (including len >= 32)
#[kani::proof]
fn c14_with_upper_bound() {
    let mask: u32 = kani::any();
    let len: u32 = kani::any();
    let i: u32 = kani::any();
    kani::assume(i < 32);
    let r = BitSet32::from_mask(mask).with_upper_bound(len);
    assert!(spec_bit(r.mask(), i) == (spec_bit(mask, i) && i < len));
}
//@ C14 c14_complement quick default complement(len) is {0..len} minus self: bit i of the result is i < len && !(bit i of self), for all masks and all len
#[kani::proof]
fn c14_complement() {
    let mask: u32 = kani::any();
    let len: u32 = kani::any();
    let i: u32 = kani::any();
    kani::assume(i < 32);
    let r = BitSet32::from_mask(mask).complement(len);
    assert!(spec_bit(r.mask(), i) == (!spec_bit(mask, i) && i < len));
}
//@ C14 c14_set_algebra quick default contains/with_bit/without_bit/insert/remove/set_bit/first/last/len/is_empty and the & | ^ ! operators equal their set-theoretic meaning on {0..31} (Kani twin of the Verus unit), all masks, all indices < 32
#[kani::proof]
fn c14_set_algebra() {
    let mask: u32 = kani::any();
    let other: u32 = kani::any();
    let idx: u32 = kani::any();
    let i: u32 = kani::any();
    kani::assume(idx < 32 && i < 32);
    let s = BitSet32::from_mask(mask);
    let o = BitSet32::from_mask(other);
    assert!(BitSet32::new().mask() == 0 && s.mask() == mask);
    assert!(s.contains(idx) == spec_bit(mask, idx));
    assert!(spec_bit(s.with_bit(idx).mask(), i) == (spec_bit(mask, i) || i == idx));
    assert!(spec_bit(s.without_bit(idx).mask(), i) == (spec_bit(mask, i) && i != idx));
    assert!(spec_bit(BitSet32::from_bit(idx).mask(), i) == (i == idx));
    assert!(s.is_empty() == (mask == 0));
    // insert / remove report whether the set changed, and have the effect of with_bit / without_bit
    let mut t = s;
    let changed = t.insert(idx);
    assert!(changed == !spec_bit(mask, idx) && t == s.with_bit(idx));
    let mut t = s;
    let changed = t.remove(idx);
    assert!(changed == spec_bit(mask, idx) && t == s.without_bit(idx));
    let en: bool = kani::any();
    let mut t = s;
    t.set_bit(idx, en);
    assert!(spec_bit(t.mask(), i) == (if i == idx { en } else { spec_bit(mask, i) }));
    // first / last are min / max
    match s.first() {
        None => assert!(mask == 0),
        Some(f) => { assert!(f < 32 && spec_bit(mask, f)); if i < f { assert!(!spec_bit(mask, i)); } },
    }
    match s.last() {
        None => assert!(mask == 0),
        Some(l) => { assert!(l < 32 && spec_bit(mask, l)); if i > l { assert!(!spec_bit(mask, i)); } },
    }
    // operators
    assert!(spec_bit((s & o).mask(), i) == (spec_bit(mask, i) && spec_bit(other, i)));
    assert!(spec_bit((s | o).mask(), i) == (spec_bit(mask, i) || spec_bit(other, i)));
    assert!(spec_bit((s ^ o).mask(), i) == (spec_bit(mask, i) != spec_bit(other, i)));
    assert!(spec_bit((!s).mask(), i) == !spec_bit(mask, i));
}
//@ C14 c14_len_is_cardinality quick default len() is the number of members (spec: 32 single-bit tests summed)
#[kani::proof]
#[kani::unwind(34)]
fn c14_len_is_cardinality() {
    let mask: u32 = kani::any();
    let mut n = 0usize;
    let mut i = 0u32;
    while i < 32 { if spec_bit(mask, i) { n += 1; } i += 1; }
    assert!(BitSet32::from_mask(mask).len() == n);
}
//@ C14 c14_iter_members_sorted quick default iterating a mask byte's set (universe 0..8, the width of the difficulty mask) yields exactly its members, each once, in increasing order, and ExactSizeIterator::len counts the remainder
#[kani::proof]
#[kani::unwind(10)]
fn c14_iter_members_sorted() {
    let mask: u32 = kani::any();
    kani::assume(mask < 256);
    let s = BitSet32::from_mask(mask);
    let mut it = s.into_iter();
    assert!(it.len() == s.len());
    let mut seen = 0u32;
    let mut prev: Option<u32> = None;
    let mut k = 0;
    while k < 9 {
        match it.next() {
            None => break,
            Some(x) => {
                assert!(x < 8 && spec_bit(mask, x));
                if let Some(p) = prev { assert!(p < x); }
                seen |= 1 << x;
                prev = Some(x);
            },
        }
        k += 1;
    }
    assert!(seen == mask);
    assert!(it.next().is_none());
}
//@ C14 c14_iter_next_step quick default IntoIter32::next on any state reachable from a set without the lone member 31: returns the lowest remaining member and removes exactly it (Kani twin of the Verus unit; one step, full 32-bit domain)
#[kani::proof]
fn c14_iter_next_step() {
    let mask: u32 = kani::any();
    let index: u32 = kani::any();
    // reachable states: `index` bits consumed, the rest still in `mask` (shifted down)
    kani::assume(index <= 32);
    kani::assume(index == 32 || (mask as u64) < (1u64 << (32 - index)));
    kani::assume(!(index == 0 && mask == 0x8000_0000));   // F6: the lone member 31 (see DESIGN.md), excluded by every caller
    kani::assume(index < 32 || mask == 0);
    let mut it = IntoIter32 { index, mask };
    match it.next() {
        None => assert!(mask == 0),
        Some(x) => {
            let tz = mask.trailing_zeros();
            assert!(x == index + tz);                 // lowest remaining member, in original coordinates
            assert!(it.index == x + 1);
            // remaining members are exactly the old ones above x
            assert!((it.mask as u64) << (tz + 1) == (mask as u64) & !((1u64 << (tz + 1)) - 1));
        },
    }
}

#[cfg(kani)]
#[path = "/verif/.cache/playback/bitset.rs"]
mod playback;
