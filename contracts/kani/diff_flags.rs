//@module context::diff_flags::verif_kani
// Harness-side constructor for DiffFlagDefs (its fields are private).  The two name maps stay EMPTY:
// everything that *operates* on a BTreeMap is out of CBMC's reach (measured), but the flag
// partition (difficulty_bits / aux_bits) only reads `flag_default_enable`.

use super::*;

pub(crate) fn defs_with_default_enable(default_enable: u8) -> DiffFlagDefs {
    DiffFlagDefs {
        flag_default_enable: BitSet32::from_mask(default_enable as u32),
        by_name: BTreeMap::new(),
        by_flag: BTreeMap::new(),
    }
}

//@ C14 c14_flag_partition quick default for every set of default-on flags: difficulty_bits() and aux_bits() are disjoint and together are exactly the 8 bits of the mask byte (every bit is either expanded over by switches or left as the label set it)
#[kani::proof]
fn c14_flag_partition() {
    let de: u8 = kani::any();
    let defs = defs_with_default_enable(de);
    let d = defs.difficulty_bits().mask();
    let a = defs.aux_bits().mask();
    assert!(d & a == 0);
    assert!(d | a == 0xFF);
    assert!(a == de as u32);
    core::mem::forget(defs);
}

#[cfg(kani)]
#[path = "/verif/.cache/playback/diff_flags.rs"]
mod playback;
