//@module context::diff_flags::verif_kani
// Harness-side constructor for DiffFlagDefs (its fields are private).  The two name maps stay EMPTY:
// everything that *operates* on a BTreeMap is out of CBMC's reach (measured), but the flag
// partition (difficulty_bits / aux_bits) only reads `flag_default_enable`.

use super::*;

pub(crate) fn defs_with_default_enable(default_enable: u8) -> DiffFlagDefs {
    DiffFlagDefs {
        flag_default_enable: BitSet32::from_mask(default_enable as u32),
        by_name: BTreeMap::new(),
        by_flag: BTreeMap::new(),
    }
}

//@ C14 c14_flag_partition quick default for every set of default-on flags: difficulty_bits() and aux_bits() are disjoint and together are exactly the 8 bits of the mask byte (every bit is either expanded over by switches or left as the label set it)
#[kani::proof]
fn c14_flag_partition() {
    let de: u8 = kani::any();
    let defs = defs_with_default_enable(de);
    let d = defs.difficulty_bits().mask();
    let a = defs.aux_bits().mask();
    assert!(d & a == 0);
    assert!(d | a == 0xFF);
    assert!(a == de as u32);
    core::mem::forget(defs);
}

// A sliver of the FIRST sentence of C14 ("every mask prints as a label that parses back to the same
// mask, under every set of flag names"): the two families of masks whose label contains no flag
// NAME - so that neither direction consults the name maps (anything that operates on a BTreeMap is
// out of CBMC's reach): the mask with every bit on ("*"), and the mask that is exactly the
// default-on set (the empty label).  For every set of default-on flags.
fn label_round_trip(default_enable: u8, mask: u8) {
    let defs = defs_with_default_enable(default_enable);
    let label = defs.mask_to_diff_label(BitSet32::from_mask(mask as u32));
    let back = defs.parse_diff_string(sp!(&label.string[..]));
    match back {
        Ok(m) => assert!(m.value.mask() == mask as u32, "label parses back to a different mask"),
        Err(d) => { core::mem::forget(d); assert!(false, "printed label does not parse"); },
    }
    core::mem::forget(label);
    core::mem::forget(defs);
}
//@ C14 c14_label_all_bits quick default for every set of default-on flags, the mask with all eight bits set prints as a label ("*") that parses back to 0xFF
#[kani::proof]
#[kani::unwind(12)]
#[kani::stub(alloc::fmt::format, crate::verif_common::stub_fmt_format)]
fn c14_label_all_bits() {
    let de: u8 = kani::any();
    label_round_trip(de, 0xFF);
}
//@ C14 c14_label_default_on_only quick default for every set of default-on flags, the mask that is exactly the default-on set (no difficulty enabled, no flag disabled) prints as a label that parses back to the same mask
#[kani::proof]
#[kani::unwind(12)]
#[kani::stub(alloc::fmt::format, crate::verif_common::stub_fmt_format)]
fn c14_label_default_on_only() {
    let de: u8 = kani::any();
    label_round_trip(de, de);
}

// (re-measured at the end of the build: the same round trip with ONE named flag inserted into the two
// BTreeMaps gives no verdict in 1200 s - BTreeMap insert/lookup stays out of CBMC's reach.)

#[cfg(kani)]
#[path = "/verif/.cache/playback/diff_flags.rs"]
mod playback;
