//@module formats::std::verif_kani
// Contracts for the instruction-header writers/readers in src/formats/std.rs (property C03).
// The obligation bodies are shared: see contracts/kani/common.rs (instr_round_trip, instr_size_field,
// terminal_is_recognised).  One instantiation per format because the hook structs are private.

use super::*;
use crate::verif_common::{read_instr_never_panics, decode_label_never_panics, instr_time_is_stored, label_round_trip, instr_round_trip, instr_size_field, terminal_is_recognised, Stored, SizeField};

macro_rules! c03 {
    ($name:ident, $unwind:literal, $body:expr) => {
        #[kani::proof]
        #[kani::unwind($unwind)]
        #[kani::stub(alloc::fmt::format, crate::verif_common::stub_fmt_format)]
        #[kani::stub(crate::error::ErrorReported::new, crate::verif_common::stub_error_reported_new)]
        #[kani::stub(crate::io::nice_display_path, crate::verif_common::stub_nice_display_path)]
        #[kani::stub(crate::llir::fit_instr_field, crate::verif_common::stub_fit_instr_field)]
        #[kani::stub(crate::llir::forbid_reserved_opcode, crate::verif_common::stub_forbid_reserved_opcode)]
        fn $name() { $body }
    };
}
macro_rules! c16 {
    ($name:ident, $unwind:literal, $body:expr) => {
        #[kani::proof]
        #[kani::unwind($unwind)]
        #[kani::stub(alloc::fmt::format, crate::verif_common::stub_fmt_format)]
        #[kani::stub(crate::error::ErrorReported::new, crate::verif_common::stub_error_reported_new)]
        #[kani::stub(crate::io::nice_display_path, crate::verif_common::stub_nice_display_path)]
        #[kani::stub(crate::diagnostic::RootEmitter::emit, crate::verif_common::stub_root_emit)]
        #[kani::stub(crate::llir::fit_instr_field, crate::verif_common::stub_fit_instr_field)]
        #[kani::stub(crate::llir::forbid_reserved_opcode, crate::verif_common::stub_forbid_reserved_opcode)]
        fn $name() { $body }
    };
}
//@ C03 c03_std06_rt_n12 quick default STD (TH06-09): write_instr then read_instr returns the same instruction, field for field (time, opcode, 12-byte blob), for every header value and every 12-byte argument blob; whatever does not fit is rejected, never stored differently; the written length is instr_size
c03!(c03_std06_rt_n12, 15, instr_round_trip::<12>(&StdHooks06, Stored { param_mask: false, difficulty: false, extra_arg: false, pop_and_arg_count: false, maybe_terminal: false, ignore_param_mask: false }, |_| true));
//@ C03 c03_std06_terminal quick default STD (TH06-09): the end-of-script marker written by write_terminal_instr is recognised as such by read_instr
c03!(c03_std06_terminal, 8, terminal_is_recognised(&StdHooks06, false, 0));
//@ C03 c03_std06_size_field quick default STD (TH06-09): the argument size field is the constant 12 and the written length is instr_size
c03!(c03_std06_size_field, 16, {
    let emitter = crate::verif_common::noop_emitter();
    let instr = crate::verif_common::arb_header(Stored { param_mask: false, difficulty: false, extra_arg: false, pop_and_arg_count: false, maybe_terminal: false, ignore_param_mask: false }, vec![0u8; 12]);
    let mut w = BinWriter::from_writer(&emitter, "x", std::io::Cursor::new(Vec::<u8>::with_capacity(32)));
    if let Err(e) = StdHooks06.write_instr(&mut w, &emitter, &instr) { core::mem::forget(e); core::mem::forget(w); core::mem::forget(instr); core::mem::forget(emitter); return; }
    let bytes: Vec<u8> = w.into_inner().into_inner();
    assert!(bytes.len() == 20 && StdHooks06.instr_size(&instr) == 20, "written length equals instr_size");
    assert!(bytes[6] == 12 && bytes[7] == 0, "stored size field differs from the true size");
    core::mem::forget(instr); core::mem::forget(emitter);
});
//@ C03 c03_std10_rt_n4 quick default STD (TH095+): write_instr then read_instr returns the same instruction, field for field (time, opcode, blob), for every header value and every 4-byte argument blob; whatever does not fit is rejected, never stored differently; the written length is instr_size
c03!(c03_std10_rt_n4, 8, instr_round_trip::<4>(&StdHooks10, Stored { param_mask: false, difficulty: false, extra_arg: false, pop_and_arg_count: false, maybe_terminal: false, ignore_param_mask: false }, |_| true));
//@ C03 c03_std10_rt_n0 thorough default STD (TH095+): write_instr then read_instr returns the same instruction, field for field (time, opcode, blob), for every header value and every 0-byte argument blob; whatever does not fit is rejected, never stored differently; the written length is instr_size
c03!(c03_std10_rt_n0, 8, instr_round_trip::<0>(&StdHooks10, Stored { param_mask: false, difficulty: false, extra_arg: false, pop_and_arg_count: false, maybe_terminal: false, ignore_param_mask: false }, |_| true));
//@ C03 c03_std10_rt_n12 thorough default STD (TH095+): write_instr then read_instr returns the same instruction, field for field (time, opcode, blob), for every header value and every 12-byte argument blob; whatever does not fit is rejected, never stored differently; the written length is instr_size
c03!(c03_std10_rt_n12, 15, instr_round_trip::<12>(&StdHooks10, Stored { param_mask: false, difficulty: false, extra_arg: false, pop_and_arg_count: false, maybe_terminal: false, ignore_param_mask: false }, |_| true));
//@ C03 c03_std10_size_field quick default STD (TH095+): for every blob length 0..=70000 either the writer rejects the instruction or the stored size field equals the true size (as the reader interprets it) and the written length is instr_size
c03!(c03_std10_size_field, 4, instr_size_field(&StdHooks10, Stored { param_mask: false, difficulty: false, extra_arg: false, pop_and_arg_count: false, maybe_terminal: false, ignore_param_mask: false }, SizeField { offset: 6, width: 2, counts_header: true, reader_max: 65535 }, 70000));
//@ C03 c03_std10_terminal quick default STD (TH095+): the end-of-script marker written by write_terminal_instr is recognised as such by read_instr
c03!(c03_std10_terminal, 8, terminal_is_recognised(&StdHooks10, false, 0));

//@ C03 c03_label_std06 quick default STD TH06-09 label encoding (instruction index = offset / 20): decode_label(encode_label(dest)) == dest for every offset that is a multiple of the 20-byte instruction size, below 2^31
c03!(c03_label_std06, 2, label_round_trip(&StdHooks06, 20));
//@ C03 c03_label_std10 quick default STD TH095+ label encoding (absolute offset): round trip for every offset below 2^31
c03!(c03_label_std10, 2, label_round_trip(&StdHooks10, 1));

// ---------------------------------------------------------------------------------------
// STD object tables ("every table entry"): a quad written by write_quad is read back by read_quad
// with the same script id and the same coordinates, bit for bit, and the quad-list terminator is
// recognised.  Floats are compared as bit patterns (NaN payloads included).

fn same3(a: [f32; 3], b: [f32; 3]) -> bool {
    a[0].to_bits() == b[0].to_bits() && a[1].to_bits() == b[1].to_bits() && a[2].to_bits() == b[2].to_bits()
}
fn arb3() -> [f32; 3] { [kani::any(), kani::any(), kani::any()] }

fn quad_round_trip(strip: bool) {
    let emitter = crate::verif_common::noop_emitter();
    let format = FileFormat06 { has_strips: true, hooks: StdHooks06 };
    let quad = Quad {
        anm_script: kani::any(),
        extra: if strip {
            QuadExtra::Strip { start: arb3(), end: arb3(), width: kani::any() }
        } else {
            QuadExtra::Rect { pos: arb3(), size: [kani::any(), kani::any()] }
        },
    };
    let mut w = BinWriter::from_writer(&emitter, "x", std::io::Cursor::new(Vec::<u8>::with_capacity(64)));
    write_quad(&mut w, &emitter, &format, &quad).ok().expect("writing a quad cannot fail");
    let bytes: Vec<u8> = w.into_inner().into_inner();
    assert!(bytes.len() == if strip { 0x24 } else { 0x1c }, "written quad has the size its header announces");
    let mut r = BinReader::from_reader(&emitter, "x", std::io::Cursor::new(bytes));
    let back = match read_quad(&mut r, &emitter) {
        Ok(Some(q)) => q,
        Ok(None) => { assert!(false, "quad read back as the list terminator"); return; },
        Err(e) => { core::mem::forget(e); assert!(false, "written quad cannot be read back"); return; },
    };
    assert!(back.anm_script == quad.anm_script, "quad script id read back differs");
    match (&back.extra, &quad.extra) {
        (QuadExtra::Rect { pos: p2, size: s2 }, QuadExtra::Rect { pos, size }) => {
            assert!(same3(*p2, *pos), "rect position read back differs");
            assert!(s2[0].to_bits() == size[0].to_bits() && s2[1].to_bits() == size[1].to_bits(), "rect size read back differs");
        },
        (QuadExtra::Strip { start: a2, end: e2, width: w2 }, QuadExtra::Strip { start, end, width }) => {
            assert!(same3(*a2, *start) && same3(*e2, *end), "strip endpoints read back differ");
            assert!(w2.to_bits() == width.to_bits(), "strip width read back differs");
        },
        _ => assert!(false, "quad kind read back differs"),
    }
    core::mem::forget(emitter);
}
//@ C03 c03_std_quad_rect quick default STD object table: a rectangle quad written by write_quad is read back by read_quad with the same script id, position and size (bit for bit), and has the size its header announces
c03!(c03_std_quad_rect, 6, quad_round_trip(false));
//@ C03 c03_std_quad_strip quick default STD object table: a strip quad (TH08/09) round-trips through write_quad / read_quad bit for bit
c03!(c03_std_quad_strip, 6, quad_round_trip(true));
//@ C03 c03_std_quad_terminal quick default STD object table: the quad-list terminator written by write_terminal_quad is recognised by read_quad
c03!(c03_std_quad_terminal, 6, {
    let emitter = crate::verif_common::noop_emitter();
    let mut w = BinWriter::from_writer(&emitter, "x", std::io::Cursor::new(Vec::<u8>::with_capacity(16)));
    write_terminal_quad(&mut w).ok().expect("writing the terminator cannot fail");
    let bytes: Vec<u8> = w.into_inner().into_inner();
    let mut r = BinReader::from_reader(&emitter, "x", std::io::Cursor::new(bytes));
    match read_quad(&mut r, &emitter) {
        Ok(None) => {},
        Ok(Some(q)) => { core::mem::forget(q); assert!(false, "terminator read back as a quad"); },
        Err(e) => { core::mem::forget(e); assert!(false, "terminator cannot be read back"); },
    }
    core::mem::forget(emitter);
});

//@ C13 c13_std06_time_stored quick default STD (TH06-09): if write_instr accepts an instruction, the time read back from the written bytes is the requested time, for every i32 time (a time that does not fit the field must be rejected, never stored differently)
c03!(c13_std06_time_stored, 16, instr_time_is_stored::<12>(&StdHooks06, Stored { param_mask: false, difficulty: false, extra_arg: false, pop_and_arg_count: false, maybe_terminal: false, ignore_param_mask: false }, |_| true));
//@ C13 c13_std10_time_stored quick default STD (TH095+): if write_instr accepts an instruction, the time read back from the written bytes is the requested time, for every i32 time (a time that does not fit the field must be rejected, never stored differently)
c03!(c13_std10_time_stored, 8, instr_time_is_stored::<4>(&StdHooks10, Stored { param_mask: false, difficulty: false, extra_arg: false, pop_and_arg_count: false, maybe_terminal: false, ignore_param_mask: false }, |_| true));

// ---------------------------------------------------------------------------------------
// C16, header level: see read_instr_never_panics / decode_label_never_panics in common.rs
//@ C16 c16_std06_read_size0 quick default STD (TH06-09): read_instr on arbitrary header bytes whose size field is 0 (not the mandatory 12) returns Ok or Err and never panics (no underflow, no failed assert, no out-of-range read)
c16!(c16_std06_read_size0, 24, read_instr_never_panics::<20>(&StdHooks06, 6, 2, 0));
//@ C16 c16_std06_read_size12 quick default STD (TH06-09): read_instr on arbitrary header bytes whose size field is 12 (the mandatory 12) returns Ok or Err and never panics (no underflow, no failed assert, no out-of-range read)
c16!(c16_std06_read_size12, 24, read_instr_never_panics::<20>(&StdHooks06, 6, 2, 12));
//@ C16 c16_std06_read_size13 quick default STD (TH06-09): read_instr on arbitrary header bytes whose size field is 13 (more than 12) returns Ok or Err and never panics (no underflow, no failed assert, no out-of-range read)
c16!(c16_std06_read_size13, 28, read_instr_never_panics::<24>(&StdHooks06, 6, 2, 13));
//@ C16 c16_std10_read_size0 quick default STD (TH095+): read_instr on arbitrary header bytes whose size field is 0 (smaller than the header) returns Ok or Err and never panics (no underflow, no failed assert, no out-of-range read)
c16!(c16_std10_read_size0, 12, read_instr_never_panics::<8>(&StdHooks10, 6, 2, 0));
//@ C16 c16_std10_read_size7 quick default STD (TH095+): read_instr on arbitrary header bytes whose size field is 7 (one less than the header) returns Ok or Err and never panics (no underflow, no failed assert, no out-of-range read)
c16!(c16_std10_read_size7, 12, read_instr_never_panics::<8>(&StdHooks10, 6, 2, 7));
//@ C16 c16_std10_read_size8 quick default STD (TH095+): read_instr on arbitrary header bytes whose size field is 8 (header only) returns Ok or Err and never panics (no underflow, no failed assert, no out-of-range read)
c16!(c16_std10_read_size8, 12, read_instr_never_panics::<8>(&StdHooks10, 6, 2, 8));
//@ C16 c16_std10_read_size12 quick default STD (TH095+): read_instr on arbitrary header bytes whose size field is 12 (4 argument bytes) returns Ok or Err and never panics (no underflow, no failed assert, no out-of-range read)
c16!(c16_std10_read_size12, 16, read_instr_never_panics::<12>(&StdHooks10, 6, 2, 12));
//@ C16 c16_label_std06_no_panic quick default STD TH06-09 label decoding (instruction index * 20) of an arbitrary 32-bit jump argument never panics (no multiplication overflow)
c16!(c16_label_std06_no_panic, 2, decode_label_never_panics(&StdHooks06));

//@ C16 c16_std10_read_size9 quick default STD (TH095+): read_instr on arbitrary header bytes whose size field is 9 (one more than the header) returns Ok or Err and never panics (no underflow, no failed assert, no out-of-range read)
c16!(c16_std10_read_size9, 13, read_instr_never_panics::<9>(&StdHooks10, 6, 2, 9));

//@ C16 c16_std_quad_no_panic quick default STD object table: read_quad on 36 arbitrary bytes returns a quad, the terminator or an error and never panics (unknown kinds and sizes are reported, not asserted)
c16!(c16_std_quad_no_panic, 6, {
    // The REAL root emitter, not the cutting one: a path on which read_quad only warns and carries on
    // must stay under check up to its return (the cutting emitter ends every path at its first
    // diagnostic, which is only sound where the diagnostic is the function's error return; the seeded
    // change C16-std-quad-size-lenient turned an error into a warning and was missed for that reason).
    let root = crate::verif_common::noop_emitter();
    let bytes: [u8; 0x24] = kani::any();
    let mut r = BinReader::from_reader(&root, "x", std::io::Cursor::new(bytes.to_vec()));
    match read_quad(&mut r, &root) {
        Ok(q) => core::mem::forget(q),
        Err(e) => core::mem::forget(e),
    }
    core::mem::forget(r);
    core::mem::forget(root);
});

//@ C16 c16_std10_read_size65535 quick default STD (TH095+): read_instr on arbitrary header bytes whose size field is 65535 (the largest 16-bit value) returns Ok or Err and never panics (no sign extension into an absurd allocation; the short buffer ends in an end-of-file error)
c16!(c16_std10_read_size65535, 12, read_instr_never_panics::<8>(&StdHooks10, 6, 2, 65535));

//@ C16 c16_std10_read_any12 quick default STD (TH095+): read_instr on 12 ARBITRARY bytes (size field symbolic too: every value, including sizes beyond the buffer, which end in an end-of-file error) returns Ok or Err and never panics
c16!(c16_std10_read_any12, 16, read_instr_never_panics::<12>(&StdHooks10, 0, 0, 0));

//@ C16 c16_std06_read_any20 quick default STD (TH06-09): read_instr on 20 ARBITRARY bytes (size field symbolic too: every value, including sizes beyond the buffer, which end in an end-of-file error) returns Ok or Err and never panics
c16!(c16_std06_read_any20, 24, read_instr_never_panics::<20>(&StdHooks06, 0, 0, 0));

// (read_object - a loop of read_quad over arbitrary bytes - was tried for C16: no verdict in 600 s)

// ---------------------------------------------------------------------------------------
// C15 ("... or as a path/name in file metadata"): the 128-byte name fields of STD files (stage name,
// BGM names and paths).  The Shift-JIS transcoder is replaced in both directions: `encode` returns
// ARBITRARY NUL-free bytes (any length <= 6), `decode` records the bytes it is handed.  Contract:
// what write_string_128 stores and read_string_128 hands to the decoder are exactly the encoded bytes.

const NAME_MAX: usize = 6;
static mut NAME_ENCODED: [u8; NAME_MAX] = [0; NAME_MAX];
static mut NAME_ENCODED_LEN: usize = 0;
static mut NAME_DECODED: [u8; NAME_MAX] = [0; NAME_MAX];
static mut NAME_DECODED_LEN: usize = usize::MAX;

pub fn stub_name_encode<S: AsRef<str> + ?Sized>(_str: &Sp<S>, _enc: crate::io::Encoding) -> Result<Encoded, Diagnostic> {
    let mut v = Vec::with_capacity(140);
    let mut i = 0;
    unsafe { while i < NAME_ENCODED_LEN { v.push(NAME_ENCODED[i]); i += 1; } }
    Ok(Encoded(v))
}
pub fn stub_name_decode(this: &Encoded, _enc: crate::io::Encoding) -> Result<String, Diagnostic> {
    unsafe {
        NAME_DECODED_LEN = this.0.len();
        let mut i = 0;
        while i < this.0.len() && i < NAME_MAX { NAME_DECODED[i] = this.0[i]; i += 1; }
    }
    Ok(String::new())
}

fn name_128_roundtrip<const N: usize>() {
    let emitter = crate::verif_common::noop_emitter();
    let raw: [u8; N] = kani::any();
    let mut bytes = [0u8; NAME_MAX];
    let mut k = 0;
    while k < N { kani::assume(raw[k] != 0); bytes[k] = raw[k]; k += 1; }
    unsafe { NAME_ENCODED = bytes; NAME_ENCODED_LEN = N; }
    let name = sp!("name");      // content irrelevant: the transcoder is the stub
    let mut w = BinWriter::from_writer(&emitter, "x", std::io::Cursor::new(Vec::<u8>::with_capacity(160)));
    match write_string_128(&mut w, &emitter, &name) {
        Ok(()) => {},
        Err(e) => { core::mem::forget(e); assert!(false, "a short name must be accepted"); return; },
    }
    let written: Vec<u8> = w.into_inner().into_inner();
    assert!(written.len() == 128, "a name field is 128 bytes");
    let mut r = BinReader::from_reader(&emitter, "x", std::io::Cursor::new(written));
    match read_string_128(&mut r, &emitter) {
        Ok(s) => core::mem::forget(s),
        Err(e) => { core::mem::forget(e); assert!(false, "written name cannot be read back"); return; },
    }
    unsafe {
        assert!(NAME_DECODED_LEN == N, "decoder received a different number of bytes than were encoded");
        let mut i = 0;
        while i < N { assert!(NAME_DECODED[i] == bytes[i], "decoder received different bytes"); i += 1; }
    }
    core::mem::forget(emitter);
}
macro_rules! name_harness {
    ($name:ident, $n:literal) => {
        #[kani::proof]
        #[kani::unwind(132)]
        #[kani::stub(alloc::fmt::format, crate::verif_common::stub_fmt_format)]
        #[kani::stub(crate::error::ErrorReported::new, crate::verif_common::stub_error_reported_new)]
        #[kani::stub(crate::io::nice_display_path, crate::verif_common::stub_nice_display_path)]
        #[kani::stub(crate::diagnostic::RootEmitter::emit, crate::verif_common::stub_root_emit)]
        #[kani::stub(crate::io::Encoded::encode, stub_name_encode)]
        #[kani::stub(crate::io::Encoded::decode, stub_name_decode)]
        fn $name() { name_128_roundtrip::<$n>(); }
    };
}
//@ C15 c15_std_name_128_n3 quick default,bounded BOUNDED encoded length 3 (transcoder stubbed in both directions): a name written by write_string_128 occupies exactly 128 bytes, and read_string_128 hands exactly the encoded bytes back to the decoder (no byte lost, none added), for every NUL-free encoded name
name_harness!(c15_std_name_128_n3, 3);
//@ C15 c15_std_name_128_n0 quick default,bounded BOUNDED empty name: same round trip through the 128-byte STD name field
name_harness!(c15_std_name_128_n0, 0);

#[cfg(kani)]
#[path = "/verif/.cache/playback/std.rs"]
mod playback;
