//@module formats::std::verif_kani
// Contracts for the instruction-header writers/readers in src/formats/std.rs (property C03).
// The obligation bodies are shared: see contracts/kani/common.rs (instr_round_trip, instr_size_field,
// terminal_is_recognised).  One instantiation per format because the hook structs are private.

use super::*;
use crate::verif_common::{instr_round_trip, instr_size_field, terminal_is_recognised, Stored, SizeField};

macro_rules! c03 {
    ($name:ident, $unwind:literal, $body:expr) => {
        #[kani::proof]
        #[kani::unwind($unwind)]
        #[kani::stub(alloc::fmt::format, crate::verif_common::stub_fmt_format)]
        #[kani::stub(crate::error::ErrorReported::new, crate::verif_common::stub_error_reported_new)]
        #[kani::stub(crate::io::nice_display_path, crate::verif_common::stub_nice_display_path)]
        #[kani::stub(crate::llir::fit_instr_field, crate::verif_common::stub_fit_instr_field)]
        #[kani::stub(crate::llir::forbid_reserved_opcode, crate::verif_common::stub_forbid_reserved_opcode)]
        fn $name() { $body }
    };
}
//@ C03 c03_std06_rt_n12 quick default STD (TH06-09): write_instr then read_instr returns the same instruction, field for field (time, opcode, 12-byte blob), for every header value and every 12-byte argument blob; whatever does not fit is rejected, never stored differently; the written length is instr_size
c03!(c03_std06_rt_n12, 15, instr_round_trip::<12>(&StdHooks06, Stored { param_mask: false, difficulty: false, extra_arg: false, pop_and_arg_count: false, maybe_terminal: false, ignore_param_mask: false }, |_| true));
//@ C03 c03_std06_terminal quick default STD (TH06-09): the end-of-script marker written by write_terminal_instr is recognised as such by read_instr
c03!(c03_std06_terminal, 8, terminal_is_recognised(&StdHooks06, false, 0));
//@ C03 c03_std06_size_field quick default STD (TH06-09): the argument size field is the constant 12 and the written length is instr_size
c03!(c03_std06_size_field, 16, {
    let emitter = crate::verif_common::noop_emitter();
    let instr = crate::verif_common::arb_header(Stored { param_mask: false, difficulty: false, extra_arg: false, pop_and_arg_count: false, maybe_terminal: false, ignore_param_mask: false }, vec![0u8; 12]);
    let mut w = BinWriter::from_writer(&emitter, "x", std::io::Cursor::new(Vec::<u8>::with_capacity(32)));
    if let Err(e) = StdHooks06.write_instr(&mut w, &emitter, &instr) { core::mem::forget(e); core::mem::forget(w); core::mem::forget(instr); core::mem::forget(emitter); return; }
    let bytes: Vec<u8> = w.into_inner().into_inner();
    assert!(bytes.len() == 20 && StdHooks06.instr_size(&instr) == 20, "written length equals instr_size");
    assert!(bytes[6] == 12 && bytes[7] == 0, "stored size field differs from the true size");
    core::mem::forget(instr); core::mem::forget(emitter);
});
//@ C03 c03_std10_rt_n4 quick default STD (TH095+): write_instr then read_instr returns the same instruction, field for field (time, opcode, blob), for every header value and every 4-byte argument blob; whatever does not fit is rejected, never stored differently; the written length is instr_size
c03!(c03_std10_rt_n4, 8, instr_round_trip::<4>(&StdHooks10, Stored { param_mask: false, difficulty: false, extra_arg: false, pop_and_arg_count: false, maybe_terminal: false, ignore_param_mask: false }, |_| true));
//@ C03 c03_std10_rt_n0 thorough default STD (TH095+): write_instr then read_instr returns the same instruction, field for field (time, opcode, blob), for every header value and every 0-byte argument blob; whatever does not fit is rejected, never stored differently; the written length is instr_size
c03!(c03_std10_rt_n0, 8, instr_round_trip::<0>(&StdHooks10, Stored { param_mask: false, difficulty: false, extra_arg: false, pop_and_arg_count: false, maybe_terminal: false, ignore_param_mask: false }, |_| true));
//@ C03 c03_std10_rt_n12 thorough default STD (TH095+): write_instr then read_instr returns the same instruction, field for field (time, opcode, blob), for every header value and every 12-byte argument blob; whatever does not fit is rejected, never stored differently; the written length is instr_size
c03!(c03_std10_rt_n12, 15, instr_round_trip::<12>(&StdHooks10, Stored { param_mask: false, difficulty: false, extra_arg: false, pop_and_arg_count: false, maybe_terminal: false, ignore_param_mask: false }, |_| true));
//@ C03 c03_std10_size_field quick default STD (TH095+): for every blob length 0..=70000 either the writer rejects the instruction or the stored size field equals the true size (as the reader interprets it) and the written length is instr_size
c03!(c03_std10_size_field, 4, instr_size_field(&StdHooks10, Stored { param_mask: false, difficulty: false, extra_arg: false, pop_and_arg_count: false, maybe_terminal: false, ignore_param_mask: false }, SizeField { offset: 6, width: 2, counts_header: true, reader_max: 65535 }, 70000));
//@ C03 c03_std10_terminal quick default STD (TH095+): the end-of-script marker written by write_terminal_instr is recognised as such by read_instr
c03!(c03_std10_terminal, 8, terminal_is_recognised(&StdHooks10, false, 0));

#[cfg(kani)]
#[path = "/verif/.cache/playback/std.rs"]
mod playback;
