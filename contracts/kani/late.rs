//@module llir::raise::late::verif_kani
// Contracts for LabelEmitter in src/llir/raise/late.rs (property C13, decompile side:
// "Decompiling emits time labels that reproduce exactly the stored times, including negative
// times and decreases").
//
// The emitted statements are interpreted by the *compile-side rule* (TimeAndDifficultyHelper,
// whose own contract is in time_and_difficulty.rs) - so what is proved is the inverse lemma
//      interpret(emit(prev -> t)) lands on t          for all prev, t in i32
// and not any particular choice of labels (how many, which kinds: free, see DESIGN.md 3.1).

use super::*;
// vacuity guards: a cover that must be SATISFIED.  Compiled out (env VERIF_NO_COVER, set only by the
// engine's counterexample re-run) because Kani's concrete playback emits a single test per harness and
// prefers a satisfied cover over the failed assertion.
macro_rules! vcover {
    ($($t:tt)*) => { if option_env!("VERIF_NO_COVER").is_none() { kani::cover!($($t)*); } };
}
use core::mem::forget;
use crate::passes::semantics::time_and_difficulty::TimeAndDifficultyHelper;
use crate::passes::semantics::time_and_difficulty::verif_kani::helper_at;

//@ C13 c13_emit_inverse quick default for every previous time and every stored time t (negative, decreasing, sign-crossing, wrapping deltas): the labels emitted for the step, read back by the compile-side label rules, give exactly t; the emitter's state becomes t
#[kani::proof]
#[kani::unwind(4)]
fn c13_emit_inverse() {
    let prev: i32 = kani::any();
    let t: i32 = kani::any();
    let mut le = LabelEmitter { prev_time: prev };
    let mut h: TimeAndDifficultyHelper = helper_at(prev);
    let mut n_emitted = 0u32;
    le.emit_offset_and_time_labels_with(None, t, &mut |stmt: Sp<ast::Stmt>| {
        h.enter_stmt(&stmt).ok().expect("emitted label must be interpretable");
        h.exit_stmt(&stmt);
        n_emitted += 1;
        forget(stmt);
    });
    assert!(h.time() == t);
    assert!(le.prev_time == t);
    if prev == t { assert!(n_emitted == 0); }   // no label, no change: a statement inherits the previous time
    vcover!(prev < 0 && t > 0);
    vcover!(t < prev);
    forget(h);
}

//@ C13 c13_emitter_starts_at_zero quick default the label emitter starts a script at time 0, like the compile side
#[kani::proof]
fn c13_emitter_starts_at_zero() {
    assert!(LabelEmitter::new().prev_time == 0);
}

//@ C13 c13_emit_label_at_stated_time quick default an offset label whose stated time is the previous or the new time is emitted exactly once, at a point where the interpreted time equals the label's stated time (a jump to it lands at that time), and the final time is still t; the 'impossible time for label' panic is unreachable under that precondition
#[kani::proof]
#[kani::unwind(4)]
fn c13_emit_label_at_stated_time() {
    let prev: i32 = kani::any();
    let t: i32 = kani::any();
    let at_new: bool = kani::any();
    let label_time = if at_new { t } else { prev };
    let label = Label { time_label: label_time, label: crate::ident::Ident::new_system("L").ok().unwrap() };
    let mut le = LabelEmitter { prev_time: prev };
    let mut h: TimeAndDifficultyHelper = helper_at(prev);
    let mut n_labels = 0u32;
    le.emit_offset_and_time_labels_with(Some(&label), t, &mut |stmt: Sp<ast::Stmt>| {
        if let ast::StmtKind::Label(_) = &stmt.value.kind {
            n_labels += 1;
            assert!(h.time() == label_time);
        }
        h.enter_stmt(&stmt).ok().expect("emitted label must be interpretable");
        h.exit_stmt(&stmt);
        forget(stmt);
    });
    assert!(n_labels == 1);
    assert!(h.time() == t && le.prev_time == t);
    forget(h);
    forget(label);
}

#[cfg(kani)]
#[path = "/verif/.cache/playback/late.rs"]
mod playback;
