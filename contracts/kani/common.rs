// Shared helpers for the Kani contract modules (compiled inside the real crate as
// `crate::verif_common`, only under cfg(kani)).
//
// Everything in here is *harness-side*: stubs that replace diagnostics plumbing CBMC cannot get
// through, and a no-op diagnostic sink.  Each stub is a trusted assumption and is listed in the
// evidence of every check that uses it (the engine scans for `kani::stub(` lines).

#![allow(dead_code)]

use crate::diagnostic::{Diagnostic, RootEmitter, WriteError};
use crate::error::ErrorReported;

/// Stub for `alloc::fmt::format`: message text is not part of any claimed obligation.
pub fn stub_fmt_format(_args: core::fmt::Arguments<'_>) -> String { String::new() }

/// Stub for `ErrorReported::new`: same struct, but the backtrace is not captured
/// (`Backtrace::capture` reads the environment, which CBMC cannot model).
pub fn stub_error_reported_new() -> ErrorReported {
    ErrorReported { backtrace: std::backtrace::Backtrace::disabled() }
}

/// Stub for `crate::io::nice_display_path` (calls `std::env::current_dir`).
pub fn stub_nice_display_path<P: AsRef<std::path::Path>>(_path: P) -> String { String::new() }

/// A diagnostic sink that renders nothing. Used with the *real* `RootEmitter`
/// (`RootEmitter::new_captured().with_writer(NoopSink)`), so emitted diagnostics still go
/// through `RootEmitter::emit` and still produce an `ErrorReported`.
pub struct NoopSink;
impl WriteError for NoopSink {
    fn write_error(&mut self, _d: &Diagnostic, _c: &codespan_reporting::term::Config, _f: &crate::pos::Files) {}
}

pub fn noop_emitter() -> RootEmitter {
    RootEmitter::new_captured().with_writer(NoopSink)
}

// ---------------------------------------------------------------------------------------
// Vacuity guard, run together with every batch of obligations: the engine requires
// `canary_must_pass` to be SUCCESSFUL and `canary_must_fail` to be FAILED, otherwise the run is
// "undecided" (exit 2).  A tool chain that reports success for everything, or that cannot see
// the crate's code, cannot pass this pair.

#[kani::proof]
fn canary_must_pass() {
    let x: u8 = kani::any();
    assert!(crate::bitset::BitSet32::from_mask(x as u32).mask() == x as u32);
}

#[kani::proof]
fn canary_must_fail() {
    let x: u8 = kani::any();
    assert!(crate::bitset::BitSet32::from_mask(x as u32).mask() != 7);
}
