//@module verif_common
// Shared helpers for the Kani contract modules (compiled inside the real crate as
// `crate::verif_common`, only under cfg(kani)).
//
// Everything in here is *harness-side*: stubs that replace diagnostics plumbing CBMC cannot get
// through, and a no-op diagnostic sink.  Each stub is a trusted assumption and is listed in the
// evidence of every check that uses it (the engine scans for `kani::stub(` lines).

#![allow(dead_code)]
// vacuity guards: a cover that must be SATISFIED.  Compiled out (env VERIF_NO_COVER, set only by the
// engine's counterexample re-run) because Kani's concrete playback emits a single test per harness and
// prefers a satisfied cover over the failed assertion.
macro_rules! vcover {
    ($($t:tt)*) => { if option_env!("VERIF_NO_COVER").is_none() { kani::cover!($($t)*); } };
}

use crate::diagnostic::{Diagnostic, RootEmitter, WriteError};
use crate::error::ErrorReported;

/// Stub for `alloc::fmt::format`: message text is not part of any claimed obligation.
pub fn stub_fmt_format(_args: core::fmt::Arguments<'_>) -> String { String::new() }

/// Stub for `ErrorReported::new`: same struct, but the backtrace is not captured
/// (`Backtrace::capture` reads the environment, which CBMC cannot model).
pub fn stub_error_reported_new() -> ErrorReported {
    ErrorReported { backtrace: std::backtrace::Backtrace::disabled() }
}

/// Stub for `crate::io::nice_display_path` (calls `std::env::current_dir`).
pub fn stub_nice_display_path<P: AsRef<std::path::Path>>(_path: P) -> String { String::new() }

/// Stub for `RootEmitter::emit`: the diagnostics are discarded without being rendered. Used where an
/// error IS emitted on the path under proof and the renderer (codespan + io::Write + io::Error drop
/// glue, reached through `dyn WriteError`) makes CBMC diverge. That an `ErrorReported` is produced is
/// kept; the text of the diagnostic is not part of any obligation.
pub fn stub_root_emit(_this: &RootEmitter, errors: impl crate::diagnostic::IntoDiagnostics) -> ErrorReported {
    core::mem::forget(errors);
    stub_error_reported_new()
}

/// A diagnostic sink that renders nothing. Used with the *real* `RootEmitter`
/// (`RootEmitter::new_captured().with_writer(NoopSink)`), so emitted diagnostics still go
/// through `RootEmitter::emit` and still produce an `ErrorReported`.
pub struct NoopSink;
impl WriteError for NoopSink {
    fn write_error(&mut self, _d: &Diagnostic, _c: &codespan_reporting::term::Config, _f: &crate::pos::Files) {}
}

pub fn noop_emitter() -> RootEmitter {
    crate::diagnostic::verif_kani::root_emitter_with(NoopSink)
}

// ---------------------------------------------------------------------------------------
// Vacuity guard, run together with every batch of obligations: the engine requires
// `canary_must_pass` to be SUCCESSFUL and `canary_must_fail` to be FAILED, otherwise the run is
// "undecided" (exit 2).  A tool chain that reports success for everything, or that cannot see
// the crate's code, cannot pass this pair.

#[kani::proof]
fn canary_must_pass() {
    let x: u8 = kani::any();
    assert!(crate::bitset::BitSet32::from_mask(x as u32).mask() == x as u32);
}

#[kani::proof]
fn canary_must_fail() {
    let x: u8 = kani::any();
    assert!(crate::bitset::BitSet32::from_mask(x as u32).mask() != 7);
}

// ---------------------------------------------------------------------------------------
// C03: shared body of the instruction-header obligations (one instantiation per format, in
// the format's own verif module because the hook structs are private).
//
// Contract, from the property text: "Whenever a compile command exits successfully, the file it
// wrote can be read back by truth ... and what is read back equals, field for field, what the
// source requested ... If a requested value does not fit the field that stores it, compilation
// fails with a diagnostic instead of storing a different value."
//   write_instr(w, i) == Ok  ==>  read_instr(bytes(w)) == Instr(i')  and  i' == i  (stored fields)
//   and bytes(w).len() == instr_size(i)   (the size the offset/label pass relies on)
// Rejecting (Err) is always allowed by this obligation; a cover checks that Ok is reachable.

use crate::llir::{InstrFormat, RawInstr, ReadInstr};
use crate::io::{BinReader, BinWriter};

/// Which header fields the format stores (the others are fixed to RawInstr::DEFAULTS in the input).
#[derive(Copy, Clone)]
pub struct Stored {
    pub param_mask: bool,
    pub difficulty: bool,
    pub extra_arg: bool,
    pub pop_and_arg_count: bool,
    /// the reader is allowed to classify an instruction as MaybeTerminal (it then still carries the instruction)
    pub maybe_terminal: bool,
    /// param_mask is written as a constant and so not compared (EoSD ECL)
    pub ignore_param_mask: bool,
}

pub fn arb_header(stored: Stored, args_blob: Vec<u8>) -> RawInstr {
    RawInstr {
        time: kani::any(),
        opcode: kani::any(),
        param_mask: if stored.param_mask || stored.ignore_param_mask { kani::any() } else { RawInstr::DEFAULTS.param_mask },
        difficulty: if stored.difficulty { kani::any() } else { RawInstr::DEFAULTS.difficulty },
        extra_arg: if stored.extra_arg { Some(kani::any()) } else { None },
        pop: if stored.pop_and_arg_count { kani::any() } else { 0 },
        arg_count: if stored.pop_and_arg_count { kani::any() } else { 0 },
        args_blob,
    }
}

/// Obligation (A): round trip with a blob of concrete length N and symbolic contents.
pub fn instr_round_trip<const N: usize>(fmt: &dyn InstrFormat, stored: Stored, extra_assume: impl Fn(&RawInstr) -> bool) {
    let emitter = noop_emitter();
    let blob: [u8; N] = kani::any();
    let instr = arb_header(stored, blob.to_vec());
    kani::assume(extra_assume(&instr));

    let mut w = BinWriter::from_writer(&emitter, "x", std::io::Cursor::new(Vec::<u8>::with_capacity(N + 24)));
    let res = fmt.write_instr(&mut w, &emitter, &instr);
    if let Err(e) = res {
        // "compilation fails with a diagnostic instead of storing a different value": allowed
        core::mem::forget(e);
        core::mem::forget(w);
        core::mem::forget(instr);
        core::mem::forget(emitter);
        return;
    }
    vcover!(true, "the writer accepts some instruction");
    let bytes: Vec<u8> = w.into_inner().into_inner();
    assert!(bytes.len() == fmt.instr_size(&instr), "written length equals instr_size");
    assert!(bytes.len() == fmt.instr_header_size() + N, "instr_size is header + blob");

    let mut r = BinReader::from_reader(&emitter, "x", std::io::Cursor::new(bytes));
    let back = match fmt.read_instr(&mut r, &emitter) {
        Ok(ReadInstr::Instr(i2)) => i2,
        Ok(ReadInstr::MaybeTerminal(i2)) => { assert!(stored.maybe_terminal, "unexpected MaybeTerminal"); i2 },
        Ok(ReadInstr::Terminal) => { assert!(false, "instruction read back as the end-of-script marker"); return; },
        Ok(ReadInstr::EndOfFile) => { assert!(false, "instruction read back as end of file"); return; },
        Err(e) => { core::mem::forget(e); assert!(false, "written instruction cannot be read back"); return; },
    };
    assert!(back.time == instr.time, "time read back differs from the requested time");
    assert!(back.opcode == instr.opcode, "opcode read back differs from the requested opcode");
    if !stored.ignore_param_mask {
        assert!(back.param_mask == instr.param_mask, "param_mask read back differs");
    }
    assert!(back.difficulty == instr.difficulty, "difficulty read back differs");
    assert!(back.extra_arg == instr.extra_arg, "extra_arg read back differs");
    assert!(back.pop == instr.pop && back.arg_count == instr.arg_count, "pop/arg_count read back differs");
    assert!(back.args_blob.len() == N, "argument blob length read back differs");
    let mut i = 0;
    while i < N {
        assert!(back.args_blob[i] == instr.args_blob[i], "argument bytes read back differ");
        i += 1;
    }
    // everything was consumed: the next instruction starts where this one ends
    assert!(r.into_inner().position() as usize == fmt.instr_header_size() + N, "reader consumed exactly the instruction");
    core::mem::forget(back);
    core::mem::forget(instr);
    core::mem::forget(emitter);
}

/// C13 ("the time stored on each emitted instruction equals the value defined by the label rules"):
/// the last step of that chain is the header writer. If write_instr accepts an instruction, the time
/// read back from the written bytes is the requested time (for every i32 time; a time that does not
/// fit the format's field must be rejected). Only the time is asserted here - the other fields
/// belong to C03.
pub fn instr_time_is_stored<const N: usize>(fmt: &dyn InstrFormat, stored: Stored, extra_assume: impl Fn(&RawInstr) -> bool) {
    let emitter = noop_emitter();
    let blob: [u8; N] = kani::any();
    let instr = arb_header(stored, blob.to_vec());
    kani::assume(extra_assume(&instr));
    let mut w = BinWriter::from_writer(&emitter, "x", std::io::Cursor::new(Vec::<u8>::with_capacity(N + 24)));
    if let Err(e) = fmt.write_instr(&mut w, &emitter, &instr) {
        core::mem::forget(e); core::mem::forget(w); core::mem::forget(instr); core::mem::forget(emitter);
        return;
    }
    vcover!(true, "the writer accepts some instruction");
    let bytes: Vec<u8> = w.into_inner().into_inner();
    let mut r = BinReader::from_reader(&emitter, "x", std::io::Cursor::new(bytes));
    match fmt.read_instr(&mut r, &emitter) {
        Ok(ReadInstr::Instr(i2)) | Ok(ReadInstr::MaybeTerminal(i2)) => {
            assert!(i2.time == instr.time, "stored time differs from the time the labels define");
            core::mem::forget(i2);
        },
        Ok(_) => {},     // marker clashes are C03's business (known finding for TH06 timelines)
        Err(e) => { core::mem::forget(e); },
    }
    core::mem::forget(instr);
    core::mem::forget(emitter);
}

/// How the size field is stored: byte offset, width, and what it counts.
#[derive(Copy, Clone)]
pub struct SizeField { pub offset: usize, pub width: usize, pub counts_header: bool, pub reader_max: usize }

/// Obligation (B): write side only, blob length fully symbolic (0..=max_len), contents zero.
/// If the writer accepts, the size field decodes to the true size *as the reader will interpret it*
/// and the number of bytes written is instr_size; otherwise it must have returned Err.
pub fn instr_size_field(fmt: &dyn InstrFormat, stored: Stored, sf: SizeField, max_len: usize) {
    let emitter = noop_emitter();
    let n: usize = kani::any();
    kani::assume(n <= max_len);
    let mut instr = arb_header(stored, vec![0u8; n]);
    // header values that always fit, so that only the size can be the reason for rejection
    instr.time = 0;
    instr.opcode = 1;
    if stored.extra_arg { instr.extra_arg = Some(0); }
    let mut w = BinWriter::from_writer(&emitter, "x", std::io::Cursor::new(Vec::<u8>::new()));
    let res = fmt.write_instr(&mut w, &emitter, &instr);
    if let Err(e) = res {
        core::mem::forget(e);
        core::mem::forget(w);
        core::mem::forget(instr);
        core::mem::forget(emitter);
        return;
    }
    vcover!(n == 0, "accepts an empty blob");
    vcover!(n == 12, "accepts a 12-byte blob");
    let bytes: Vec<u8> = w.into_inner().into_inner();
    let header = fmt.instr_header_size();
    assert!(bytes.len() == header + n, "written length equals header + blob");
    assert!(fmt.instr_size(&instr) == header + n, "instr_size is header + blob");
    let want = if sf.counts_header { header + n } else { n };
    let mut got: usize = 0;
    let mut k = 0;
    while k < sf.width {
        got |= (bytes[sf.offset + k] as usize) << (8 * k);
        k += 1;
    }
    assert!(got == want, "stored size field differs from the true size");
    assert!(want <= sf.reader_max, "stored size exceeds what the reader interprets correctly");
    core::mem::forget(bytes);
    core::mem::forget(instr);
    core::mem::forget(emitter);
}

/// The end-of-script marker written by write_terminal_instr is recognised by read_instr.
pub fn terminal_is_recognised(fmt: &dyn InstrFormat, maybe_terminal: bool, trailing_zeros: usize) {
    let emitter = noop_emitter();
    let mut w = BinWriter::from_writer(&emitter, "x", std::io::Cursor::new(Vec::<u8>::with_capacity(32)));
    fmt.write_terminal_instr(&mut w, &emitter).ok().expect("writing the marker cannot fail");
    let mut bytes: Vec<u8> = w.into_inner().into_inner();
    let mut k = 0;
    while k < trailing_zeros { bytes.push(0); k += 1; }
    let mut r = BinReader::from_reader(&emitter, "x", std::io::Cursor::new(bytes));
    match fmt.read_instr(&mut r, &emitter) {
        Ok(ReadInstr::Terminal) => {},
        Ok(ReadInstr::MaybeTerminal(i)) => { assert!(maybe_terminal, "unexpected MaybeTerminal"); core::mem::forget(i); },
        Ok(ReadInstr::Instr(i)) => { core::mem::forget(i); assert!(false, "end-of-script marker read back as an instruction"); },
        Ok(ReadInstr::EndOfFile) => assert!(false, "end-of-script marker read back as end of file"),
        Err(e) => { core::mem::forget(e); assert!(false, "end-of-script marker cannot be read back"); },
    }
    core::mem::forget(emitter);
}

// ---------------------------------------------------------------------------------------
// Modular treatment of the two header-field guards (src/llir/mod.rs).  Their emission path (a
// diagnostic rendered next to live io::Error values) makes CBMC diverge inside the round-trip
// harnesses (measured: 9 of 9 time out at 300 s), so the round trips use these stubs, which keep
// the decision logic and drop only the diagnostic; obligations c03_guard_* prove, on the REAL
// functions with the real emitter, that the real decision is the same as the stub's.

/// Accepting half of the guard's contract: "requires value fits; ensures Ok(value unchanged)".
/// Paths on which the value does not fit are cut here (kani::assume(false)); that the REAL guard
/// reports an error on exactly those paths is obligation c03_guard_*.  A writer that stores a
/// field without going through the guard keeps the non-fitting values and fails its round trip.
pub fn stub_fit_instr_field<T, U>(_emitter: &dyn crate::diagnostic::Emitter, _instr: &RawInstr, _field: &str, value: T) -> Result<U, ErrorReported>
where
    T: Copy + std::fmt::Display,
    U: TryFrom<T>,
{
    match U::try_from(value) {
        Ok(x) => Ok(x),
        Err(_) => { kani::assume(false); loop {} },
    }
}

pub fn stub_forbid_reserved_opcode(_emitter: &dyn crate::diagnostic::Emitter, instr: &RawInstr, reserved: crate::raw::Opcode) -> Result<(), ErrorReported> {
    kani::assume(instr.opcode != reserved);
    Ok(())
}

fn tiny_instr() -> RawInstr {
    RawInstr { time: kani::any(), opcode: kani::any(), args_blob: Vec::new(), ..RawInstr::DEFAULTS }
}

macro_rules! guard_harness {
    ($name:ident, $t:ty, $u:ty) => {
        #[kani::proof]
        #[kani::unwind(4)]
        #[kani::stub(alloc::fmt::format, crate::verif_common::stub_fmt_format)]
        #[kani::stub(crate::error::ErrorReported::new, crate::verif_common::stub_error_reported_new)]
        fn $name() {
            let emitter = noop_emitter();
            let instr = tiny_instr();
            let v: $t = kani::any();
            let real: Result<$u, ErrorReported> = crate::llir::fit_instr_field(&emitter, &instr, "field", v);
            // spec: the value is stored unchanged if and only if it is representable; else an error
            let fits = (v as i128) >= (<$u>::MIN as i128) && (v as i128) <= (<$u>::MAX as i128);
            match real {
                Ok(x) => { assert!(fits, "accepted a value that does not fit"); assert!((x as i128) == (v as i128), "stored a different value"); },
                Err(e) => { assert!(!fits, "rejected a value that fits"); core::mem::forget(e); },
            }
            core::mem::forget(instr);
            core::mem::forget(emitter);
        }
    };
}
//@ C03 c03_guard_i32_i16 quick default fit_instr_field::<i32,i16> (time fields): Ok(v) exactly when v fits in 16 signed bits, and then unchanged; otherwise an error is reported (real function, real emitter)
guard_harness!(c03_guard_i32_i16, i32, i16);
//@ C03 c03_guard_i16_i8 quick default fit_instr_field::<i16,i8> (signed-byte opcodes of MSG / ANM v0): accepted exactly when representable, stored unchanged
guard_harness!(c03_guard_i16_i8, i16, i8);
//@ C03 c03_guard_usize_u8 quick default fit_instr_field::<usize,u8> (byte-sized size fields): accepted exactly when representable, stored unchanged
guard_harness!(c03_guard_usize_u8, usize, u8);
//@ C03 c03_guard_usize_u16 quick default fit_instr_field::<usize,u16> (16-bit size fields): accepted exactly when representable, stored unchanged
guard_harness!(c03_guard_usize_u16, usize, u16);
//@ C03 c03_guard_usize_i16 quick default fit_instr_field::<usize,i16> (size fields that are read back signed): accepted exactly when representable, stored unchanged
guard_harness!(c03_guard_usize_i16, usize, i16);
//@ C03 c03_guard_reserved_opcode quick default forbid_reserved_opcode: an error exactly when the opcode equals the reserved end-of-script value
#[kani::proof]
#[kani::unwind(4)]
#[kani::stub(alloc::fmt::format, crate::verif_common::stub_fmt_format)]
#[kani::stub(crate::error::ErrorReported::new, crate::verif_common::stub_error_reported_new)]
fn c03_guard_reserved_opcode() {
    let emitter = noop_emitter();
    let instr = tiny_instr();
    let reserved: u16 = kani::any();
    match crate::llir::forbid_reserved_opcode(&emitter, &instr, reserved) {
        Ok(()) => assert!(instr.opcode != reserved, "accepted the reserved opcode"),
        Err(e) => { assert!(instr.opcode == reserved, "rejected an ordinary opcode"); core::mem::forget(e); },
    }
    core::mem::forget(instr);
    core::mem::forget(emitter);
}

// ---------------------------------------------------------------------------------------
// C03 ("every ... offset"): a jump target is stored as LanguageHooks::encode_label(cur, dest) and
// read back with decode_label(cur, bits).  Contract: for every pair of offsets inside a script
// (below 2^31, far above any script the size fields allow) decode(cur, encode(cur, dest)) == dest.

pub fn label_round_trip(hooks: &dyn crate::llir::LanguageHooks, dest_multiple_of: u64) {
    let cur: u64 = kani::any();
    let dest: u64 = kani::any();
    kani::assume(cur < (1u64 << 31) && dest < (1u64 << 31));
    kani::assume(dest % dest_multiple_of == 0);
    let bits = hooks.encode_label(cur, dest);
    let back = hooks.decode_label(cur, bits);
    assert!(back == dest, "jump offset read back differs from the label's offset");
}

// ---------------------------------------------------------------------------------------
// C16 ("Any binary input ends in success or a diagnostic, never a crash"), header level:
// read_instr on ARBITRARY bytes returns Ok or Err - it never panics (no arithmetic overflow, no
// failed assert, no slice out of range).  The buffer length and the value of the size field are
// concrete per obligation (a symbolic size makes the reader's EOF path reachable, whose io::Error
// drop glue CBMC cannot get through - measured); every other byte is symbolic.  The buffer always
// holds as many bytes as the size field announces, so that the obligation exercises the header
// logic (underflow of "size - header", sign extension, asserts), not the EOF path.
/// An emitter that ends the path as soon as a diagnostic is emitted through it (kani::assume(false)).
/// Everything the reader does BEFORE it reports an error or warning is checked for panics; the
/// emission machinery itself (diagnostic rendering) is trusted not to panic - it is what CBMC cannot
/// get through on these paths (measured: 14 of 14 error-reporting cases undecided after 600 s with the
/// real emitter), and it is exercised by every negative test of the suite.
pub struct CutEmitter;
impl crate::diagnostic::Emitter for CutEmitter {
    fn _root_emitter(&self) -> &RootEmitter { kani::assume(false); loop {} }
    fn _unspanned_prefix(&self) -> String { kani::assume(false); String::new() }
}

pub fn read_instr_never_panics<const L: usize>(fmt: &dyn InstrFormat, size_offset: usize, size_width: usize, size_value: usize) {
    let root = noop_emitter();
    let cut = CutEmitter;
    let mut bytes: [u8; L] = kani::any();
    let mut k = 0;
    while k < size_width {
        bytes[size_offset + k] = ((size_value >> (8 * k)) & 0xFF) as u8;
        k += 1;
    }
    let mut r = BinReader::from_reader(&root, "x", std::io::Cursor::new(bytes.to_vec()));
    // every arithmetic step, assertion and slice access up to the point where read_instr returns or
    // starts to report a diagnostic is checked by Kani (overflow, underflow, failed assert, capacity
    // overflow, out-of-range index are all panics = failed checks)
    vcover!(true, "the reader is reached");      // (for sizes below the header every path ends at the emission cut)
    match fmt.read_instr(&mut r, &cut) {
        Ok(x) => core::mem::forget(x),
        Err(e) => core::mem::forget(e),
    }
    core::mem::forget(r);
    core::mem::forget(root);
}

/// decode_label on arbitrary bits (a jump argument read from a file) never panics.
pub fn decode_label_never_panics(hooks: &dyn crate::llir::LanguageHooks) {
    let cur: u64 = kani::any();
    kani::assume(cur < (1u64 << 32));       // an offset inside a file that was read into memory
    let bits: u32 = kani::any();
    let _ = hooks.decode_label(cur, bits);
}
