//@module formats::anm::read_write::verif_kani
// Contracts for the instruction-header writers/readers in src/formats/anm/read_write.rs (property C03).
// The obligation bodies are shared: see contracts/kani/common.rs (instr_round_trip, instr_size_field,
// terminal_is_recognised).  One instantiation per format because the hook structs are private.

use super::*;
macro_rules! vcover {
    ($($t:tt)*) => { if option_env!("VERIF_NO_COVER").is_none() { kani::cover!($($t)*); } };
}
use crate::verif_common::{read_instr_never_panics, decode_label_never_panics, instr_time_is_stored, instr_round_trip, instr_size_field, terminal_is_recognised, Stored, SizeField};

macro_rules! c03 {
    ($name:ident, $unwind:literal, $body:expr) => {
        #[kani::proof]
        #[kani::unwind($unwind)]
        #[kani::stub(alloc::fmt::format, crate::verif_common::stub_fmt_format)]
        #[kani::stub(crate::error::ErrorReported::new, crate::verif_common::stub_error_reported_new)]
        #[kani::stub(crate::io::nice_display_path, crate::verif_common::stub_nice_display_path)]
        #[kani::stub(crate::llir::fit_instr_field, crate::verif_common::stub_fit_instr_field)]
        #[kani::stub(crate::llir::forbid_reserved_opcode, crate::verif_common::stub_forbid_reserved_opcode)]
        fn $name() { $body }
    };
}
macro_rules! c16 {
    ($name:ident, $unwind:literal, $body:expr) => {
        #[kani::proof]
        #[kani::unwind($unwind)]
        #[kani::stub(alloc::fmt::format, crate::verif_common::stub_fmt_format)]
        #[kani::stub(crate::error::ErrorReported::new, crate::verif_common::stub_error_reported_new)]
        #[kani::stub(crate::io::nice_display_path, crate::verif_common::stub_nice_display_path)]
        #[kani::stub(crate::diagnostic::RootEmitter::emit, crate::verif_common::stub_root_emit)]
        #[kani::stub(crate::llir::fit_instr_field, crate::verif_common::stub_fit_instr_field)]
        #[kani::stub(crate::llir::forbid_reserved_opcode, crate::verif_common::stub_forbid_reserved_opcode)]
        fn $name() { $body }
    };
}
//@ C03 c03_anm06_rt_n4 quick default ANM v0 (EoSD): write_instr then read_instr returns the same instruction, field for field (time, opcode, blob), for every header value and every 4-byte argument blob; whatever does not fit is rejected, never stored differently; the written length is instr_size
c03!(c03_anm06_rt_n4, 8, instr_round_trip::<4>(&InstrFormat06, Stored { param_mask: false, difficulty: false, extra_arg: false, pop_and_arg_count: false, maybe_terminal: true, ignore_param_mask: false }, |_| true));
//@ C03 c03_anm06_rt_n0 thorough default ANM v0 (EoSD): write_instr then read_instr returns the same instruction, field for field (time, opcode, blob), for every header value and every 0-byte argument blob; whatever does not fit is rejected, never stored differently; the written length is instr_size
c03!(c03_anm06_rt_n0, 8, instr_round_trip::<0>(&InstrFormat06, Stored { param_mask: false, difficulty: false, extra_arg: false, pop_and_arg_count: false, maybe_terminal: true, ignore_param_mask: false }, |_| true));
//@ C03 c03_anm06_rt_n12 thorough default ANM v0 (EoSD): write_instr then read_instr returns the same instruction, field for field (time, opcode, blob), for every header value and every 12-byte argument blob; whatever does not fit is rejected, never stored differently; the written length is instr_size
c03!(c03_anm06_rt_n12, 15, instr_round_trip::<12>(&InstrFormat06, Stored { param_mask: false, difficulty: false, extra_arg: false, pop_and_arg_count: false, maybe_terminal: true, ignore_param_mask: false }, |_| true));
//@ C03 c03_anm06_size_field quick default ANM v0 (EoSD): for every blob length 0..=70000 either the writer rejects the instruction or the stored size field equals the true size (as the reader interprets it) and the written length is instr_size
c03!(c03_anm06_size_field, 4, instr_size_field(&InstrFormat06, Stored { param_mask: false, difficulty: false, extra_arg: false, pop_and_arg_count: false, maybe_terminal: true, ignore_param_mask: false }, SizeField { offset: 3, width: 1, counts_header: false, reader_max: 255 }, 70000));
//@ C03 c03_anm06_terminal quick default ANM v0 (EoSD): the end-of-script marker written by write_terminal_instr is recognised as such by read_instr
c03!(c03_anm06_terminal, 8, terminal_is_recognised(&InstrFormat06, true, 0));
//@ C03 c03_anm07_rt_n4 quick default ANM v2+: write_instr then read_instr returns the same instruction, field for field (time, opcode, param_mask, blob), for every header value and every 4-byte argument blob; whatever does not fit is rejected, never stored differently; the written length is instr_size
c03!(c03_anm07_rt_n4, 8, instr_round_trip::<4>(&InstrFormat07, Stored { param_mask: true, difficulty: false, extra_arg: false, pop_and_arg_count: false, maybe_terminal: false, ignore_param_mask: false }, |_| true));
//@ C03 c03_anm07_rt_n0 thorough default ANM v2+: write_instr then read_instr returns the same instruction, field for field (time, opcode, param_mask, blob), for every header value and every 0-byte argument blob; whatever does not fit is rejected, never stored differently; the written length is instr_size
c03!(c03_anm07_rt_n0, 8, instr_round_trip::<0>(&InstrFormat07, Stored { param_mask: true, difficulty: false, extra_arg: false, pop_and_arg_count: false, maybe_terminal: false, ignore_param_mask: false }, |_| true));
//@ C03 c03_anm07_rt_n12 thorough default ANM v2+: write_instr then read_instr returns the same instruction, field for field (time, opcode, param_mask, blob), for every header value and every 12-byte argument blob; whatever does not fit is rejected, never stored differently; the written length is instr_size
c03!(c03_anm07_rt_n12, 15, instr_round_trip::<12>(&InstrFormat07, Stored { param_mask: true, difficulty: false, extra_arg: false, pop_and_arg_count: false, maybe_terminal: false, ignore_param_mask: false }, |_| true));
//@ C03 c03_anm07_size_field quick default ANM v2+: for every blob length 0..=70000 either the writer rejects the instruction or the stored size field equals the true size (as the reader interprets it) and the written length is instr_size
c03!(c03_anm07_size_field, 4, instr_size_field(&InstrFormat07, Stored { param_mask: true, difficulty: false, extra_arg: false, pop_and_arg_count: false, maybe_terminal: false, ignore_param_mask: false }, SizeField { offset: 2, width: 2, counts_header: true, reader_max: 65535 }, 70000));
//@ C03 c03_anm07_terminal quick default ANM v2+: the end-of-script marker written by write_terminal_instr is recognised as such by read_instr
c03!(c03_anm07_terminal, 8, terminal_is_recognised(&InstrFormat07, false, 0));

// ---------------------------------------------------------------------------------------
// ANM entry header ("every table entry, count, offset"): write_header then read_header returns the
// same header for every field the version stores; a value that does not fit its field is rejected
// (guard fit_header_field, contract c03_anm_header_guard_*), never stored differently.

pub fn stub_fit_header_field<T, U>(_emitter: &dyn Emitter, _field: &str, value: T) -> Result<U, ErrorReported>
where
    T: Copy + std::fmt::Display,
    U: TryFrom<T>,
{
    // accepting half of the guard's contract; the rejecting half is proved on the real function below
    match U::try_from(value) {
        Ok(x) => Ok(x),
        Err(_) => { kani::assume(false); loop {} },
    }
}

fn arb_offset() -> Option<NonZeroU64> { NonZeroU64::new(kani::any()) }

fn header_round_trip(game: Game) {
    let emitter = crate::verif_common::noop_emitter();
    let format = FileFormat::from_game(game);
    let old = format.version.is_old_header();
    let h = EntryHeaderData {
        version: kani::any(), num_sprites: kani::any(), num_scripts: kani::any(),
        rt_width: kani::any(), rt_height: kani::any(), rt_format: kani::any(),
        name_offset: kani::any(),
        secondary_name_offset: if old { arb_offset() } else { None },
        colorkey: if old { kani::any() } else { 0 },
        offset_x: if old { 0 } else { kani::any() },
        offset_y: if old { 0 } else { kani::any() },
        memory_priority: kani::any(),
        thtx_offset: arb_offset(),
        has_data: kani::any(),
        low_res_scale: if old { 0 } else { kani::any() },
        next_offset: kani::any(),
    };
    let mut w = BinWriter::from_writer(&emitter, "x", std::io::Cursor::new(Vec::<u8>::with_capacity(80)));
    if let Err(e) = format.write_header(&mut w, &emitter, &h) {
        core::mem::forget(e); core::mem::forget(w); core::mem::forget(format); core::mem::forget(emitter);
        return;
    }
    vcover!(true, "the header writer accepts some header");
    let bytes: Vec<u8> = w.into_inner().into_inner();
    assert!(bytes.len() == 64, "an entry header is 16 dwords");
    let mut r = BinReader::from_reader(&emitter, "x", std::io::Cursor::new(bytes));
    let b = match format.read_header(&mut r, &emitter) {
        Ok(b) => b,
        Err(e) => { core::mem::forget(e); assert!(false, "written header cannot be read back"); return; },
    };
    assert!(b.version == h.version, "header version read back differs");
    assert!(b.num_sprites == h.num_sprites && b.num_scripts == h.num_scripts, "sprite/script count read back differs");
    assert!(b.rt_width == h.rt_width && b.rt_height == h.rt_height && b.rt_format == h.rt_format, "rt_width/rt_height/rt_format read back differs");
    assert!(b.name_offset == h.name_offset && b.secondary_name_offset == h.secondary_name_offset, "name offset read back differs");
    assert!(b.colorkey == h.colorkey, "colorkey read back differs");
    assert!(b.offset_x == h.offset_x && b.offset_y == h.offset_y, "offset_x/offset_y read back differs");
    assert!(b.memory_priority == h.memory_priority, "memory_priority read back differs");
    assert!(b.thtx_offset == h.thtx_offset && b.next_offset == h.next_offset, "texture/next-entry offset read back differs");
    assert!(b.has_data == h.has_data && b.low_res_scale == h.low_res_scale, "has_data/low_res_scale read back differs");
    core::mem::forget(format);
    core::mem::forget(emitter);
}

macro_rules! c03h {
    ($name:ident, $unwind:literal, $body:expr) => {
        #[kani::proof]
        #[kani::unwind($unwind)]
        #[kani::stub(alloc::fmt::format, crate::verif_common::stub_fmt_format)]
        #[kani::stub(crate::error::ErrorReported::new, crate::verif_common::stub_error_reported_new)]
        #[kani::stub(crate::io::nice_display_path, crate::verif_common::stub_nice_display_path)]
        #[kani::stub(fit_header_field, stub_fit_header_field)]
        fn $name() { $body }
    };
}
//@ C03 c03_anm_header_new_rt quick default ANM entry header, TH07+ layout: write_header then read_header returns every stored field unchanged (version, counts, rt size/format, name/texture/next offsets, offset_x/y, memory priority, has_data, low_res_scale) for every header value; what does not fit its 16/32-bit field is rejected, never stored differently
c03h!(c03_anm_header_new_rt, 8, header_round_trip(Game::Th12));
//@ C03 c03_anm_header_old_rt quick default ANM entry header, TH06 layout: write_header then read_header returns every stored field unchanged (incl. colorkey and the secondary name offset)
c03h!(c03_anm_header_old_rt, 8, header_round_trip(Game::Th06));

macro_rules! header_guard_harness {
    ($name:ident, $t:ty, $u:ty) => {
        #[kani::proof]
        #[kani::unwind(4)]
        #[kani::stub(alloc::fmt::format, crate::verif_common::stub_fmt_format)]
        #[kani::stub(crate::error::ErrorReported::new, crate::verif_common::stub_error_reported_new)]
        fn $name() {
            let emitter = crate::verif_common::noop_emitter();
            let v: $t = kani::any();
            let real: Result<$u, ErrorReported> = fit_header_field(&emitter, "field", v);
            let fits = (v as i128) >= (<$u>::MIN as i128) && (v as i128) <= (<$u>::MAX as i128);
            match real {
                Ok(x) => { assert!(fits, "accepted a value that does not fit"); assert!((x as i128) == (v as i128), "stored a different value"); },
                Err(e) => { assert!(!fits, "rejected a value that fits"); core::mem::forget(e); },
            }
            core::mem::forget(emitter);
        }
    };
}
//@ C03 c03_anm_header_guard_u32_u16 quick default fit_header_field::<u32,u16>: Ok(v) exactly when v fits in 16 bits, and then unchanged; otherwise an error is reported (real function, real emitter)
header_guard_harness!(c03_anm_header_guard_u32_u16, u32, u16);
//@ C03 c03_anm_header_guard_u64_u32 quick default fit_header_field::<u64,u32> (offsets): accepted exactly when representable, stored unchanged
header_guard_harness!(c03_anm_header_guard_u64_u32, u64, u32);

//@ C03 c03_anm_sprite_rt quick default ANM sprite table entry: write_sprite then read_sprite returns the same id, offset and size (floats bit for bit)
c03!(c03_anm_sprite_rt, 6, {
    let emitter = crate::verif_common::noop_emitter();
    let id: u32 = kani::any();
    let sp = Sprite { id: None, offset: [kani::any(), kani::any()], size: [kani::any(), kani::any()] };
    let mut w = BinWriter::from_writer(&emitter, "x", std::io::Cursor::new(Vec::<u8>::with_capacity(32)));
    write_sprite(&mut w, id, &sp).ok().expect("writing a sprite cannot fail");
    let bytes: Vec<u8> = w.into_inner().into_inner();
    assert!(bytes.len() == 20, "a sprite entry is 20 bytes");
    let mut r = BinReader::from_reader(&emitter, "x", std::io::Cursor::new(bytes));
    let back = match read_sprite(&mut r) { Ok(b) => b, Err(e) => { core::mem::forget(e); assert!(false, "written sprite cannot be read back"); return; } };
    assert!(back.id == Some(id), "sprite id read back differs");
    assert!(back.offset[0].to_bits() == sp.offset[0].to_bits() && back.offset[1].to_bits() == sp.offset[1].to_bits(), "sprite offset read back differs");
    assert!(back.size[0].to_bits() == sp.size[0].to_bits() && back.size[1].to_bits() == sp.size[1].to_bits(), "sprite size read back differs");
    core::mem::forget(emitter);
});

//@ C13 c13_anm06_time_stored quick default ANM v0 (EoSD): if write_instr accepts an instruction, the time read back from the written bytes is the requested time, for every i32 time (a time that does not fit the field must be rejected, never stored differently)
c03!(c13_anm06_time_stored, 8, instr_time_is_stored::<4>(&InstrFormat06, Stored { param_mask: false, difficulty: false, extra_arg: false, pop_and_arg_count: false, maybe_terminal: true, ignore_param_mask: false }, |_| true));
//@ C13 c13_anm07_time_stored quick default ANM v2+: if write_instr accepts an instruction, the time read back from the written bytes is the requested time, for every i32 time (a time that does not fit the field must be rejected, never stored differently)
c03!(c13_anm07_time_stored, 8, instr_time_is_stored::<4>(&InstrFormat07, Stored { param_mask: true, difficulty: false, extra_arg: false, pop_and_arg_count: false, maybe_terminal: false, ignore_param_mask: false }, |_| true));

// ---------------------------------------------------------------------------------------
// C16, header level: see read_instr_never_panics / decode_label_never_panics in common.rs
//@ C16 c16_anm06_read_size0 quick default ANM v0: read_instr on arbitrary header bytes whose size field is 0 (no arguments) returns Ok or Err and never panics (no underflow, no failed assert, no out-of-range read)
c16!(c16_anm06_read_size0, 12, read_instr_never_panics::<4>(&InstrFormat06, 3, 1, 0));
//@ C16 c16_anm06_read_size4 quick default ANM v0: read_instr on arbitrary header bytes whose size field is 4 (4 argument bytes) returns Ok or Err and never panics (no underflow, no failed assert, no out-of-range read)
c16!(c16_anm06_read_size4, 12, read_instr_never_panics::<8>(&InstrFormat06, 3, 1, 4));
//@ C16 c16_anm07_read_size0 quick default ANM v2+: read_instr on arbitrary header bytes whose size field is 0 (smaller than the header) returns Ok or Err and never panics (no underflow, no failed assert, no out-of-range read)
c16!(c16_anm07_read_size0, 12, read_instr_never_panics::<8>(&InstrFormat07, 2, 2, 0));
//@ C16 c16_anm07_read_size7 quick default ANM v2+: read_instr on arbitrary header bytes whose size field is 7 (one less than the header) returns Ok or Err and never panics (no underflow, no failed assert, no out-of-range read)
c16!(c16_anm07_read_size7, 12, read_instr_never_panics::<8>(&InstrFormat07, 2, 2, 7));
//@ C16 c16_anm07_read_size8 quick default ANM v2+: read_instr on arbitrary header bytes whose size field is 8 (header only) returns Ok or Err and never panics (no underflow, no failed assert, no out-of-range read)
c16!(c16_anm07_read_size8, 12, read_instr_never_panics::<8>(&InstrFormat07, 2, 2, 8));
//@ C16 c16_anm07_read_size12 quick default ANM v2+: read_instr on arbitrary header bytes whose size field is 12 (4 argument bytes) returns Ok or Err and never panics (no underflow, no failed assert, no out-of-range read)
c16!(c16_anm07_read_size12, 16, read_instr_never_panics::<12>(&InstrFormat07, 2, 2, 12));

//@ C16 c16_anm06_read_size3 quick default ANM v0: read_instr on arbitrary header bytes whose size field is 3 (3 argument bytes: not a multiple of 4) returns Ok or Err and never panics (no underflow, no failed assert, no out-of-range read)
c16!(c16_anm06_read_size3, 12, read_instr_never_panics::<7>(&InstrFormat06, 3, 1, 3));
//@ C16 c16_anm07_read_size9 quick default ANM v2+: read_instr on arbitrary header bytes whose size field is 9 (one more than the header) returns Ok or Err and never panics (no underflow, no failed assert, no out-of-range read)
c16!(c16_anm07_read_size9, 13, read_instr_never_panics::<9>(&InstrFormat07, 2, 2, 9));

//@ C16 c16_anm_header_new_no_panic quick default ANM entry header (TH07+ layout): read_header on 64 arbitrary bytes returns a header or an error and never panics
c16!(c16_anm_header_new_no_panic, 8, {
    let root = crate::verif_common::noop_emitter();
    let cut = crate::verif_common::CutEmitter;
    let format = FileFormat::from_game(Game::Th12);
    let bytes: [u8; 64] = kani::any();
    let mut r = BinReader::from_reader(&root, "x", std::io::Cursor::new(bytes.to_vec()));
    match format.read_header(&mut r, &cut) {
        Ok(h) => core::mem::forget(h),
        Err(e) => core::mem::forget(e),
    }
    core::mem::forget(r); core::mem::forget(format); core::mem::forget(root);
});
//@ C16 c16_anm_header_old_no_panic quick default ANM entry header (TH06 layout): read_header on 64 arbitrary bytes returns a header or an error and never panics
c16!(c16_anm_header_old_no_panic, 8, {
    let root = crate::verif_common::noop_emitter();
    let cut = crate::verif_common::CutEmitter;
    let format = FileFormat::from_game(Game::Th06);
    let bytes: [u8; 64] = kani::any();
    let mut r = BinReader::from_reader(&root, "x", std::io::Cursor::new(bytes.to_vec()));
    match format.read_header(&mut r, &cut) {
        Ok(h) => core::mem::forget(h),
        Err(e) => core::mem::forget(e),
    }
    core::mem::forget(r); core::mem::forget(format); core::mem::forget(root);
});

//@ C16 c16_anm07_read_size65535 quick default ANM v2+: read_instr on arbitrary header bytes whose size field is 65535 (the largest 16-bit value) returns Ok or Err and never panics (no sign extension into an absurd allocation; the short buffer ends in an end-of-file error)
c16!(c16_anm07_read_size65535, 12, read_instr_never_panics::<8>(&InstrFormat07, 2, 2, 65535));

//@ C16 c16_anm07_read_any12 quick default ANM v2+: read_instr on 12 ARBITRARY bytes (size field symbolic too: every value, including sizes beyond the buffer, which end in an end-of-file error) returns Ok or Err and never panics
c16!(c16_anm07_read_any12, 16, read_instr_never_panics::<12>(&InstrFormat07, 0, 0, 0));
//@ C16 c16_anm06_read_any8 quick default ANM v0: read_instr on 8 ARBITRARY bytes (size field symbolic too: every value, including sizes beyond the buffer, which end in an end-of-file error) returns Ok or Err and never panics
c16!(c16_anm06_read_any8, 12, read_instr_never_panics::<8>(&InstrFormat06, 0, 0, 0));

//@ C03 c03_anm_texture_rt quick default ANM texture (THTX) header: write_texture then read_texture returns the same format, width and height and the same data bytes (4 symbolic bytes), for every metadata value; a format or dimension that does not fit its 16-bit field is rejected, never stored differently
c03h!(c03_anm_texture_rt, 10, {
    let emitter = crate::verif_common::noop_emitter();
    let meta = TextureMetadata { width: kani::any(), height: kani::any(), format: kani::any() };
    let px: [u8; 4] = kani::any();
    let data = TextureData { data: std::rc::Rc::new(px.to_vec()) };
    let mut w = BinWriter::from_writer(&emitter, "x", std::io::Cursor::new(Vec::<u8>::with_capacity(32)));
    if let Err(e) = write_texture(&mut w, &emitter, &data, &meta) {
        core::mem::forget(e); core::mem::forget(w); core::mem::forget(data); core::mem::forget(emitter);
        return;
    }
    vcover!(true, "the texture writer accepts some metadata");
    let bytes: Vec<u8> = w.into_inner().into_inner();
    assert!(bytes.len() == 16 + 4, "THTX header is 16 bytes");
    let mut r = BinReader::from_reader(&emitter, "x", std::io::Cursor::new(bytes));
    match read_texture(&mut r, &emitter, true) {
        Ok((m2, Some(d2))) => {
            assert!(m2.width == meta.width && m2.height == meta.height && m2.format == meta.format, "texture format/width/height read back differs");
            assert!(d2.data.len() == 4, "texture data length read back differs");
            let mut i = 0;
            while i < 4 { assert!(d2.data[i] == px[i], "texture bytes read back differ"); i += 1; }
            core::mem::forget(d2);
        },
        Ok((_, None)) => assert!(false, "texture data was not read back"),
        Err(e) => { core::mem::forget(e); assert!(false, "written texture cannot be read back"); },
    }
    core::mem::forget(data);
    core::mem::forget(emitter);
});
//@ C16 c16_anm_texture_no_panic quick default ANM texture (THTX) header: read_texture on 24 arbitrary bytes (any magic, format, dimensions and data size, with or without loading the image) returns a texture or an error and never panics
c16!(c16_anm_texture_no_panic, 10, {
    let root = crate::verif_common::noop_emitter();
    let bytes: [u8; 24] = kani::any();
    let with_images: bool = kani::any();
    let mut r = BinReader::from_reader(&root, "x", std::io::Cursor::new(bytes.to_vec()));
    match read_texture(&mut r, &root, with_images) {
        Ok(x) => core::mem::forget(x),
        Err(e) => core::mem::forget(e),
    }
    core::mem::forget(r);
    core::mem::forget(root);
});

#[cfg(kani)]
#[path = "/verif/.cache/playback/anm_read_write.rs"]
mod playback;
