//@module formats::anm::read_write::verif_kani
// Contracts for the instruction-header writers/readers in src/formats/anm/read_write.rs (property C03).
// The obligation bodies are shared: see contracts/kani/common.rs (instr_round_trip, instr_size_field,
// terminal_is_recognised).  One instantiation per format because the hook structs are private.

use super::*;
use crate::verif_common::{instr_round_trip, instr_size_field, terminal_is_recognised, Stored, SizeField};

macro_rules! c03 {
    ($name:ident, $unwind:literal, $body:expr) => {
        #[kani::proof]
        #[kani::unwind($unwind)]
        #[kani::stub(alloc::fmt::format, crate::verif_common::stub_fmt_format)]
        #[kani::stub(crate::error::ErrorReported::new, crate::verif_common::stub_error_reported_new)]
        #[kani::stub(crate::io::nice_display_path, crate::verif_common::stub_nice_display_path)]
        #[kani::stub(crate::llir::fit_instr_field, crate::verif_common::stub_fit_instr_field)]
        #[kani::stub(crate::llir::forbid_reserved_opcode, crate::verif_common::stub_forbid_reserved_opcode)]
        fn $name() { $body }
    };
}
//@ C03 c03_anm06_rt_n4 quick default ANM v0 (EoSD): write_instr then read_instr returns the same instruction, field for field (time, opcode, blob), for every header value and every 4-byte argument blob; whatever does not fit is rejected, never stored differently; the written length is instr_size
c03!(c03_anm06_rt_n4, 8, instr_round_trip::<4>(&InstrFormat06, Stored { param_mask: false, difficulty: false, extra_arg: false, pop_and_arg_count: false, maybe_terminal: true, ignore_param_mask: false }, |_| true));
//@ C03 c03_anm06_rt_n0 thorough default ANM v0 (EoSD): write_instr then read_instr returns the same instruction, field for field (time, opcode, blob), for every header value and every 0-byte argument blob; whatever does not fit is rejected, never stored differently; the written length is instr_size
c03!(c03_anm06_rt_n0, 8, instr_round_trip::<0>(&InstrFormat06, Stored { param_mask: false, difficulty: false, extra_arg: false, pop_and_arg_count: false, maybe_terminal: true, ignore_param_mask: false }, |_| true));
//@ C03 c03_anm06_rt_n12 thorough default ANM v0 (EoSD): write_instr then read_instr returns the same instruction, field for field (time, opcode, blob), for every header value and every 12-byte argument blob; whatever does not fit is rejected, never stored differently; the written length is instr_size
c03!(c03_anm06_rt_n12, 15, instr_round_trip::<12>(&InstrFormat06, Stored { param_mask: false, difficulty: false, extra_arg: false, pop_and_arg_count: false, maybe_terminal: true, ignore_param_mask: false }, |_| true));
//@ C03 c03_anm06_size_field quick default ANM v0 (EoSD): for every blob length 0..=70000 either the writer rejects the instruction or the stored size field equals the true size (as the reader interprets it) and the written length is instr_size
c03!(c03_anm06_size_field, 4, instr_size_field(&InstrFormat06, Stored { param_mask: false, difficulty: false, extra_arg: false, pop_and_arg_count: false, maybe_terminal: true, ignore_param_mask: false }, SizeField { offset: 3, width: 1, counts_header: false, reader_max: 255 }, 70000));
//@ C03 c03_anm06_terminal quick default ANM v0 (EoSD): the end-of-script marker written by write_terminal_instr is recognised as such by read_instr
c03!(c03_anm06_terminal, 8, terminal_is_recognised(&InstrFormat06, true, 0));
//@ C03 c03_anm07_rt_n4 quick default ANM v2+: write_instr then read_instr returns the same instruction, field for field (time, opcode, param_mask, blob), for every header value and every 4-byte argument blob; whatever does not fit is rejected, never stored differently; the written length is instr_size
c03!(c03_anm07_rt_n4, 8, instr_round_trip::<4>(&InstrFormat07, Stored { param_mask: true, difficulty: false, extra_arg: false, pop_and_arg_count: false, maybe_terminal: false, ignore_param_mask: false }, |_| true));
//@ C03 c03_anm07_rt_n0 thorough default ANM v2+: write_instr then read_instr returns the same instruction, field for field (time, opcode, param_mask, blob), for every header value and every 0-byte argument blob; whatever does not fit is rejected, never stored differently; the written length is instr_size
c03!(c03_anm07_rt_n0, 8, instr_round_trip::<0>(&InstrFormat07, Stored { param_mask: true, difficulty: false, extra_arg: false, pop_and_arg_count: false, maybe_terminal: false, ignore_param_mask: false }, |_| true));
//@ C03 c03_anm07_rt_n12 thorough default ANM v2+: write_instr then read_instr returns the same instruction, field for field (time, opcode, param_mask, blob), for every header value and every 12-byte argument blob; whatever does not fit is rejected, never stored differently; the written length is instr_size
c03!(c03_anm07_rt_n12, 15, instr_round_trip::<12>(&InstrFormat07, Stored { param_mask: true, difficulty: false, extra_arg: false, pop_and_arg_count: false, maybe_terminal: false, ignore_param_mask: false }, |_| true));
//@ C03 c03_anm07_size_field quick default ANM v2+: for every blob length 0..=70000 either the writer rejects the instruction or the stored size field equals the true size (as the reader interprets it) and the written length is instr_size
c03!(c03_anm07_size_field, 4, instr_size_field(&InstrFormat07, Stored { param_mask: true, difficulty: false, extra_arg: false, pop_and_arg_count: false, maybe_terminal: false, ignore_param_mask: false }, SizeField { offset: 2, width: 2, counts_header: true, reader_max: 65535 }, 70000));
//@ C03 c03_anm07_terminal quick default ANM v2+: the end-of-script marker written by write_terminal_instr is recognised as such by read_instr
c03!(c03_anm07_terminal, 8, terminal_is_recognised(&InstrFormat07, false, 0));

#[cfg(kani)]
#[path = "/verif/.cache/playback/anm_read_write.rs"]
mod playback;
