//@module diff_switch_utils::verif_kani
// Contracts for src/diff_switch_utils.rs (property C14, second sentence: "on each difficulty level
// the switch has a position for ... exactly one emitted instruction applies and it carries that
// difficulty's case values").
//
// `elaborate_diff_switches` (src/llir/lower.rs) emits one copy of the instruction per mask produced
// by `explicit_case_bitmasks`, with the arguments chosen by `select_diff_switch_case(cases, first
// difficulty of the mask)`.  The obligations below are about exactly those helper functions:
//   partition  - the masks are pairwise disjoint and cover {0..n}           ("exactly one applies")
//   selection  - select is constant on each mask                           ("carries that difficulty's values")
//   meaning    - select(cases, d) is the explicit case at the largest index <= d  (omitted cases repeat)
// n <= 8 is the width of the mask byte and is enforced by validate_difficulty ("too many cases in
// diff switch"), so the bound is the structural maximum: these are complete, not bounded.

use super::*;
// vacuity guards: a cover that must be SATISFIED.  Compiled out (env VERIF_NO_COVER, set only by the
// engine's counterexample re-run) because Kani's concrete playback emits a single test per harness and
// prefers a satisfied cover over the failed assertion.
macro_rules! vcover {
    ($($t:tt)*) => { if option_env!("VERIF_NO_COVER").is_none() { kani::cover!($($t)*); } };
}

fn arb_cases(n: usize) -> Vec<Option<u8>> {
    // n <= 8 symbolic cases; the first case is always present (the parser guarantees it)
    let raw: [Option<u8>; 8] = kani::any();
    let mut v = Vec::with_capacity(8);
    let mut i = 0;
    while i < n { v.push(raw[i]); i += 1; }
    v
}

fn some_mask(cases: &[Option<u8>]) -> u32 {
    let mut m = 0u32;
    let mut i = 0;
    while i < cases.len() { if cases[i].is_some() { m |= 1 << i; } i += 1; }
    m
}

//@ C14 c14_update quick default DiffSwitchMeta::update: num_difficulties becomes max(old, len) and explicit_difficulties becomes old ∪ {i | cases[i] is explicit}, for every prior state and every switch of 1..=8 cases
#[kani::proof]
#[kani::unwind(10)]
fn c14_update() {
    let n: usize = kani::any();
    kani::assume(n >= 1 && n <= 8);
    let cases = arb_cases(n);
    let n0: usize = kani::any();
    let e0: u32 = kani::any();
    kani::assume(n0 <= 8 && e0 < 256);
    let mut meta = DiffSwitchMeta { num_difficulties: n0, explicit_difficulties: BitSet32::from_mask(e0) };
    meta.update(&cases);
    assert!(meta.num_difficulties == if n0 > n { n0 } else { n });
    assert!(meta.explicit_difficulties.mask() == e0 | some_mask(&cases));
    // and from the initial state
    let mut fresh = DiffSwitchMeta::new();
    assert!(fresh.num_difficulties == 0 && fresh.explicit_difficulties.mask() == 0);
    fresh.update(&cases);
    assert!(fresh.num_difficulties == n && fresh.explicit_difficulties.mask() == some_mask(&cases));
}

//@ C14 c14_partition quick default explicit_case_bitmasks: for every n <= 8 and every explicit set E with 0 ∈ E ⊆ {0..n}, the masks are non-empty, pairwise disjoint and their union is {0..n} (exactly one emitted copy applies on each difficulty)
#[kani::proof]
#[kani::unwind(10)]
fn c14_partition() {
    let n: usize = kani::any();
    kani::assume(n >= 1 && n <= 8);
    let e: u32 = kani::any();
    kani::assume(e & 1 == 1 && e < (1u32 << n));
    let meta = DiffSwitchMeta { num_difficulties: n, explicit_difficulties: BitSet32::from_mask(e) };
    let mut union = 0u32;
    let mut count = 0u32;
    for m in meta.explicit_case_bitmasks() {
        let mm = m.mask();
        assert!(mm != 0);
        assert!(union & mm == 0);
        union |= mm;
        count += 1;
    }
    assert!(union == (1u32 << n) - 1);
    vcover!(count == 8);
    vcover!(count == 1 && n == 8);
}

fn spec_select_index(cases: &[Option<u8>], d: usize) -> usize {
    // the largest index <= d holding an explicit case
    let mut j = d;
    while j > 0 && cases[j].is_none() { j -= 1; }
    j
}

//@ C14 c14_select_meaning quick default select_diff_switch_case(cases, d) is the explicit case at the largest index <= d (omitted cases repeat the previous one), for every switch of 1..=8 cases and every d < n
#[kani::proof]
#[kani::unwind(10)]
fn c14_select_meaning() {
    let n: usize = kani::any();
    kani::assume(n >= 1 && n <= 8);
    let cases = arb_cases(n);
    kani::assume(cases[0].is_some());
    let d: u32 = kani::any();
    kani::assume((d as usize) < n);
    let got: &u8 = select_diff_switch_case(&cases, d);
    let j = spec_select_index(&cases, d as usize);
    assert!(core::ptr::eq(got, cases[j].as_ref().unwrap()));
}

//@ C14 c14_select_constant_on_mask quick default for every mask produced by explicit_case_bitmasks (n <= 8, E = union of the explicit positions of the statement's switches) and every switch whose explicit positions lie in E: select(cases, d) is the same element for every d in the mask as for the mask's first difficulty (the one elaborate_diff_switches uses)
#[kani::proof]
#[kani::unwind(10)]
fn c14_select_constant_on_mask() {
    let n: usize = kani::any();
    kani::assume(n >= 1 && n <= 8);
    let cases = arb_cases(n);
    kani::assume(cases[0].is_some());
    // E may be larger than this switch's own explicit set (other switches in the same statement)
    let extra: u32 = kani::any();
    kani::assume(extra < (1u32 << n));
    let e = some_mask(&cases) | extra;
    let meta = DiffSwitchMeta { num_difficulties: n, explicit_difficulties: BitSet32::from_mask(e) };
    let d: u32 = kani::any();
    kani::assume((d as usize) < n);
    for m in meta.explicit_case_bitmasks() {
        if m.contains(d) {
            let first = m.first().unwrap();
            let a: &u8 = select_diff_switch_case(&cases, first);
            let b: &u8 = select_diff_switch_case(&cases, d);
            assert!(core::ptr::eq(a, b));
        }
    }
}

// explicit_difficulty_cases (used when a difficulty switch is lowered as an expression) is NOT under
// contract: CBMC exhausts 32 GB on it even with n <= 3 (slice iterator + growing Vec of tuples of
// references).  It is listed under `unverified` in the evidence.

//@ C14 c14_switch_from_explicit_inverse quick default switch_from_explicit_cases (the decompiler's inverse): the rebuilt switch has n positions, explicit exactly at E, holding the given values in order; update() of the rebuilt switch gives back (n, E)
#[kani::proof]
#[kani::unwind(10)]
fn c14_switch_from_explicit_inverse() {
    let n: usize = kani::any();
    kani::assume(n >= 1 && n <= 8);
    let e: u32 = kani::any();
    kani::assume(e & 1 == 1 && e < (1u32 << n));
    let meta = DiffSwitchMeta { num_difficulties: n, explicit_difficulties: BitSet32::from_mask(e) };
    let vals: [u8; 8] = kani::any();
    let k = BitSet32::from_mask(e).len();
    let mut explicit: Vec<u8> = Vec::with_capacity(8);
    let mut i = 0;
    while i < k { explicit.push(vals[i]); i += 1; }
    let out: Vec<Option<u8>> = meta.switch_from_explicit_cases(explicit);
    assert!(out.len() == n);
    let mut rank = 0;
    let mut i = 0;
    while i < n {
        if (e >> i) & 1 == 1 { assert!(out[i] == Some(vals[rank])); rank += 1; } else { assert!(out[i].is_none()); }
        i += 1;
    }
    let mut back = DiffSwitchMeta::new();
    back.update(&out);
    assert!(back.num_difficulties == n && back.explicit_difficulties.mask() == e);
}

#[cfg(kani)]
#[path = "/verif/.cache/playback/diff_switch_utils.rs"]
mod playback;
