//@module formats::ecl::ecl_06::verif_kani
// Contracts for the instruction-header writers/readers in src/formats/ecl/ecl_06.rs (property C03).
// The obligation bodies are shared: see contracts/kani/common.rs (instr_round_trip, instr_size_field,
// terminal_is_recognised).  One instantiation per format because the hook structs are private.

use super::*;
use crate::verif_common::{read_instr_never_panics, decode_label_never_panics, instr_time_is_stored, label_round_trip, instr_round_trip, instr_size_field, terminal_is_recognised, Stored, SizeField};

macro_rules! c03 {
    ($name:ident, $unwind:literal, $body:expr) => {
        #[kani::proof]
        #[kani::unwind($unwind)]
        #[kani::stub(alloc::fmt::format, crate::verif_common::stub_fmt_format)]
        #[kani::stub(crate::error::ErrorReported::new, crate::verif_common::stub_error_reported_new)]
        #[kani::stub(crate::io::nice_display_path, crate::verif_common::stub_nice_display_path)]
        #[kani::stub(crate::llir::fit_instr_field, crate::verif_common::stub_fit_instr_field)]
        #[kani::stub(crate::llir::forbid_reserved_opcode, crate::verif_common::stub_forbid_reserved_opcode)]
        fn $name() { $body }
    };
}
macro_rules! c16 {
    ($name:ident, $unwind:literal, $body:expr) => {
        #[kani::proof]
        #[kani::unwind($unwind)]
        #[kani::stub(alloc::fmt::format, crate::verif_common::stub_fmt_format)]
        #[kani::stub(crate::error::ErrorReported::new, crate::verif_common::stub_error_reported_new)]
        #[kani::stub(crate::io::nice_display_path, crate::verif_common::stub_nice_display_path)]
        #[kani::stub(crate::diagnostic::RootEmitter::emit, crate::verif_common::stub_root_emit)]
        #[kani::stub(crate::llir::fit_instr_field, crate::verif_common::stub_fit_instr_field)]
        #[kani::stub(crate::llir::forbid_reserved_opcode, crate::verif_common::stub_forbid_reserved_opcode)]
        fn $name() { $body }
    };
}
//@ C03 c03_ecl06_th06_rt_n4 quick default ECL (EoSD): write_instr then read_instr returns the same instruction, field for field (time, opcode, difficulty, blob; the parameter mask is the constant 0xFF in this game), for every header value and every 4-byte argument blob; whatever does not fit is rejected, never stored differently; the written length is instr_size
c03!(c03_ecl06_th06_rt_n4, 8, instr_round_trip::<4>(&OldeEclHooks { game: Game::Th06 }, Stored { param_mask: false, difficulty: true, extra_arg: false, pop_and_arg_count: false, maybe_terminal: false, ignore_param_mask: true }, |_| true));
//@ C03 c03_ecl06_th06_rt_n0 thorough default ECL (EoSD): write_instr then read_instr returns the same instruction, field for field (time, opcode, difficulty, blob; the parameter mask is the constant 0xFF in this game), for every header value and every 0-byte argument blob; whatever does not fit is rejected, never stored differently; the written length is instr_size
c03!(c03_ecl06_th06_rt_n0, 8, instr_round_trip::<0>(&OldeEclHooks { game: Game::Th06 }, Stored { param_mask: false, difficulty: true, extra_arg: false, pop_and_arg_count: false, maybe_terminal: false, ignore_param_mask: true }, |_| true));
//@ C03 c03_ecl06_th06_rt_n12 thorough default ECL (EoSD): write_instr then read_instr returns the same instruction, field for field (time, opcode, difficulty, blob; the parameter mask is the constant 0xFF in this game), for every header value and every 12-byte argument blob; whatever does not fit is rejected, never stored differently; the written length is instr_size
c03!(c03_ecl06_th06_rt_n12, 15, instr_round_trip::<12>(&OldeEclHooks { game: Game::Th06 }, Stored { param_mask: false, difficulty: true, extra_arg: false, pop_and_arg_count: false, maybe_terminal: false, ignore_param_mask: true }, |_| true));
//@ C03 c03_ecl06_th06_size_field quick default ECL (EoSD): for every blob length 0..=70000 either the writer rejects the instruction or the stored size field equals the true size (as the reader interprets it) and the written length is instr_size
c03!(c03_ecl06_th06_size_field, 4, instr_size_field(&OldeEclHooks { game: Game::Th06 }, Stored { param_mask: false, difficulty: true, extra_arg: false, pop_and_arg_count: false, maybe_terminal: false, ignore_param_mask: true }, SizeField { offset: 6, width: 2, counts_header: true, reader_max: 32767 }, 70000));
//@ C03 c03_ecl06_th06_terminal quick default ECL (EoSD): the end-of-script marker written by write_terminal_instr is recognised as such by read_instr
c03!(c03_ecl06_th06_terminal, 8, terminal_is_recognised(&OldeEclHooks { game: Game::Th06 }, false, 0));
//@ C03 c03_ecl06_th07_rt_n4 quick default ECL (TH07-095): write_instr then read_instr returns the same instruction, field for field (time, opcode, difficulty, param_mask, blob), for every header value and every 4-byte argument blob; whatever does not fit is rejected, never stored differently; the written length is instr_size
c03!(c03_ecl06_th07_rt_n4, 8, instr_round_trip::<4>(&OldeEclHooks { game: Game::Th07 }, Stored { param_mask: true, difficulty: true, extra_arg: false, pop_and_arg_count: false, maybe_terminal: false, ignore_param_mask: false }, |_| true));
//@ C03 c03_ecl06_th07_rt_n0 thorough default ECL (TH07-095): write_instr then read_instr returns the same instruction, field for field (time, opcode, difficulty, param_mask, blob), for every header value and every 0-byte argument blob; whatever does not fit is rejected, never stored differently; the written length is instr_size
c03!(c03_ecl06_th07_rt_n0, 8, instr_round_trip::<0>(&OldeEclHooks { game: Game::Th07 }, Stored { param_mask: true, difficulty: true, extra_arg: false, pop_and_arg_count: false, maybe_terminal: false, ignore_param_mask: false }, |_| true));
//@ C03 c03_ecl06_th07_rt_n12 thorough default ECL (TH07-095): write_instr then read_instr returns the same instruction, field for field (time, opcode, difficulty, param_mask, blob), for every header value and every 12-byte argument blob; whatever does not fit is rejected, never stored differently; the written length is instr_size
c03!(c03_ecl06_th07_rt_n12, 15, instr_round_trip::<12>(&OldeEclHooks { game: Game::Th07 }, Stored { param_mask: true, difficulty: true, extra_arg: false, pop_and_arg_count: false, maybe_terminal: false, ignore_param_mask: false }, |_| true));
//@ C03 c03_ecl06_th07_size_field quick default ECL (TH07-095): for every blob length 0..=70000 either the writer rejects the instruction or the stored size field equals the true size (as the reader interprets it) and the written length is instr_size
c03!(c03_ecl06_th07_size_field, 4, instr_size_field(&OldeEclHooks { game: Game::Th07 }, Stored { param_mask: true, difficulty: true, extra_arg: false, pop_and_arg_count: false, maybe_terminal: false, ignore_param_mask: false }, SizeField { offset: 6, width: 2, counts_header: true, reader_max: 32767 }, 70000));
//@ C03 c03_ecl06_th07_terminal quick default ECL (TH07-095): the end-of-script marker written by write_terminal_instr is recognised as such by read_instr
c03!(c03_ecl06_th07_terminal, 8, terminal_is_recognised(&OldeEclHooks { game: Game::Th07 }, false, 0));
//@ C03 c03_tl06_rt_n4 quick default ECL timeline (TH06-07): write_instr then read_instr returns the same instruction, field for field (time, first argument (extra_arg), opcode, blob; except the one header that is spelled like the end marker, see c03_tl06_marker_clash), for every header value and every 4-byte argument blob; whatever does not fit is rejected, never stored differently; the written length is instr_size
c03!(c03_tl06_rt_n4, 8, instr_round_trip::<4>(&TimelineFormat06, Stored { param_mask: false, difficulty: false, extra_arg: true, pop_and_arg_count: false, maybe_terminal: false, ignore_param_mask: false }, |i: &RawInstr| !(i.time == -1 && i.extra_arg == Some(4))));
//@ C03 c03_tl06_rt_n0 thorough default ECL timeline (TH06-07): write_instr then read_instr returns the same instruction, field for field (time, first argument (extra_arg), opcode, blob; except the one header that is spelled like the end marker, see c03_tl06_marker_clash), for every header value and every 0-byte argument blob; whatever does not fit is rejected, never stored differently; the written length is instr_size
c03!(c03_tl06_rt_n0, 8, instr_round_trip::<0>(&TimelineFormat06, Stored { param_mask: false, difficulty: false, extra_arg: true, pop_and_arg_count: false, maybe_terminal: false, ignore_param_mask: false }, |i: &RawInstr| !(i.time == -1 && i.extra_arg == Some(4))));
//@ C03 c03_tl06_rt_n12 thorough default ECL timeline (TH06-07): write_instr then read_instr returns the same instruction, field for field (time, first argument (extra_arg), opcode, blob; except the one header that is spelled like the end marker, see c03_tl06_marker_clash), for every header value and every 12-byte argument blob; whatever does not fit is rejected, never stored differently; the written length is instr_size
c03!(c03_tl06_rt_n12, 15, instr_round_trip::<12>(&TimelineFormat06, Stored { param_mask: false, difficulty: false, extra_arg: true, pop_and_arg_count: false, maybe_terminal: false, ignore_param_mask: false }, |i: &RawInstr| !(i.time == -1 && i.extra_arg == Some(4))));
//@ C03 c03_tl06_size_field quick default ECL timeline (TH06-07): for every blob length 0..=70000 either the writer rejects the instruction or the stored size field equals the true size (as the reader interprets it) and the written length is instr_size
c03!(c03_tl06_size_field, 4, instr_size_field(&TimelineFormat06, Stored { param_mask: false, difficulty: false, extra_arg: true, pop_and_arg_count: false, maybe_terminal: false, ignore_param_mask: false }, SizeField { offset: 6, width: 2, counts_header: true, reader_max: 32767 }, 70000));
//@ C03 c03_tl06_terminal quick default ECL timeline (TH06-07): the end-of-script marker written by write_terminal_instr is recognised as such by read_instr
c03!(c03_tl06_terminal, 12, terminal_is_recognised(&TimelineFormat06, false, 4));
//@ C03 c03_tl06_marker_clash quick default ECL timeline (TH06-07): an instruction with time -1 and first argument 4 is spelled like the end-of-script marker; it must either be rejected by the writer or be read back as an instruction (KNOWN FINDING on the pinned tree: it is written and then read back as the marker)
c03!(c03_tl06_marker_clash, 8, instr_round_trip::<4>(&TimelineFormat06, Stored { param_mask: false, difficulty: false, extra_arg: true, pop_and_arg_count: false, maybe_terminal: false, ignore_param_mask: false }, |i: &RawInstr| i.time == -1 && i.extra_arg == Some(4)));
//@ C03 c03_tl08_rt_n4 quick default ECL timeline (TH08+): write_instr then read_instr returns the same instruction, field for field (time, opcode, difficulty, blob), for every header value and every 4-byte argument blob; whatever does not fit is rejected, never stored differently; the written length is instr_size
c03!(c03_tl08_rt_n4, 8, instr_round_trip::<4>(&TimelineFormat08, Stored { param_mask: false, difficulty: true, extra_arg: false, pop_and_arg_count: false, maybe_terminal: false, ignore_param_mask: false }, |_| true));
//@ C03 c03_tl08_rt_n0 thorough default ECL timeline (TH08+): write_instr then read_instr returns the same instruction, field for field (time, opcode, difficulty, blob), for every header value and every 0-byte argument blob; whatever does not fit is rejected, never stored differently; the written length is instr_size
c03!(c03_tl08_rt_n0, 8, instr_round_trip::<0>(&TimelineFormat08, Stored { param_mask: false, difficulty: true, extra_arg: false, pop_and_arg_count: false, maybe_terminal: false, ignore_param_mask: false }, |_| true));
//@ C03 c03_tl08_rt_n12 thorough default ECL timeline (TH08+): write_instr then read_instr returns the same instruction, field for field (time, opcode, difficulty, blob), for every header value and every 12-byte argument blob; whatever does not fit is rejected, never stored differently; the written length is instr_size
c03!(c03_tl08_rt_n12, 15, instr_round_trip::<12>(&TimelineFormat08, Stored { param_mask: false, difficulty: true, extra_arg: false, pop_and_arg_count: false, maybe_terminal: false, ignore_param_mask: false }, |_| true));
//@ C03 c03_tl08_size_field quick default ECL timeline (TH08+): for every blob length 0..=70000 either the writer rejects the instruction or the stored size field equals the true size (as the reader interprets it) and the written length is instr_size
c03!(c03_tl08_size_field, 4, instr_size_field(&TimelineFormat08, Stored { param_mask: false, difficulty: true, extra_arg: false, pop_and_arg_count: false, maybe_terminal: false, ignore_param_mask: false }, SizeField { offset: 6, width: 1, counts_header: true, reader_max: 255 }, 70000));
//@ C03 c03_tl08_terminal quick default ECL timeline (TH08+): the end-of-script marker written by write_terminal_instr is recognised as such by read_instr
c03!(c03_tl08_terminal, 8, terminal_is_recognised(&TimelineFormat08, false, 0));

//@ C03 c03_label_ecl06 quick default ECL TH06-095 label encoding (signed offset relative to the jumping instruction): decode_label(cur, encode_label(cur, dest)) == dest for every pair of offsets below 2^31, forwards and backwards
c03!(c03_label_ecl06, 2, label_round_trip(&OldeEclHooks { game: Game::Th07 }, 1));

//@ C13 c13_ecl06_time_stored quick default ECL (TH06-095): if write_instr accepts an instruction, the time read back from the written bytes is the requested time, for every i32 time (a time that does not fit the field must be rejected, never stored differently)
c03!(c13_ecl06_time_stored, 8, instr_time_is_stored::<4>(&OldeEclHooks { game: Game::Th07 }, Stored { param_mask: true, difficulty: true, extra_arg: false, pop_and_arg_count: false, maybe_terminal: false, ignore_param_mask: false }, |_| true));
//@ C13 c13_tl06_time_stored quick default ECL timeline (TH06-07): if write_instr accepts an instruction, the time read back from the written bytes is the requested time, for every i32 time (a time that does not fit the field must be rejected, never stored differently)
c03!(c13_tl06_time_stored, 8, instr_time_is_stored::<4>(&TimelineFormat06, Stored { param_mask: false, difficulty: false, extra_arg: true, pop_and_arg_count: false, maybe_terminal: false, ignore_param_mask: false }, |_| true));
//@ C13 c13_tl08_time_stored quick default ECL timeline (TH08+): if write_instr accepts an instruction, the time read back from the written bytes is the requested time, for every i32 time (a time that does not fit the field must be rejected, never stored differently)
c03!(c13_tl08_time_stored, 8, instr_time_is_stored::<4>(&TimelineFormat08, Stored { param_mask: false, difficulty: true, extra_arg: false, pop_and_arg_count: false, maybe_terminal: false, ignore_param_mask: false }, |_| true));

// ---------------------------------------------------------------------------------------
// C16, header level: see read_instr_never_panics / decode_label_never_panics in common.rs
//@ C16 c16_ecl06_read_size0 quick default ECL (TH06-095): read_instr on arbitrary header bytes whose size field is 0 (smaller than the header) returns Ok or Err and never panics (no underflow, no failed assert, no out-of-range read)
c16!(c16_ecl06_read_size0, 16, read_instr_never_panics::<12>(&OldeEclHooks { game: Game::Th07 }, 6, 2, 0));
//@ C16 c16_ecl06_read_size11 quick default ECL (TH06-095): read_instr on arbitrary header bytes whose size field is 11 (one less than the header) returns Ok or Err and never panics (no underflow, no failed assert, no out-of-range read)
c16!(c16_ecl06_read_size11, 16, read_instr_never_panics::<12>(&OldeEclHooks { game: Game::Th07 }, 6, 2, 11));
//@ C16 c16_ecl06_read_size12 quick default ECL (TH06-095): read_instr on arbitrary header bytes whose size field is 12 (header only) returns Ok or Err and never panics (no underflow, no failed assert, no out-of-range read)
c16!(c16_ecl06_read_size12, 16, read_instr_never_panics::<12>(&OldeEclHooks { game: Game::Th07 }, 6, 2, 12));
//@ C16 c16_ecl06_read_size16 quick default ECL (TH06-095): read_instr on arbitrary header bytes whose size field is 16 (4 argument bytes) returns Ok or Err and never panics (no underflow, no failed assert, no out-of-range read)
c16!(c16_ecl06_read_size16, 20, read_instr_never_panics::<16>(&OldeEclHooks { game: Game::Th07 }, 6, 2, 16));
//@ C16 c16_ecl06_read_size65535 quick default ECL (TH06-095): read_instr on arbitrary header bytes whose size field is 65535 (negative as a signed 16-bit size) returns Ok or Err and never panics (no underflow, no failed assert, no out-of-range read)
c16!(c16_ecl06_read_size65535, 16, read_instr_never_panics::<12>(&OldeEclHooks { game: Game::Th07 }, 6, 2, 65535));
//@ C16 c16_tl06_read_size0 quick default ECL timeline (TH06-07): read_instr on arbitrary header bytes whose size field is 0 (smaller than the header) returns Ok or Err and never panics (no underflow, no failed assert, no out-of-range read)
c16!(c16_tl06_read_size0, 12, read_instr_never_panics::<8>(&TimelineFormat06, 6, 2, 0));
//@ C16 c16_tl06_read_size7 quick default ECL timeline (TH06-07): read_instr on arbitrary header bytes whose size field is 7 (one less than the header) returns Ok or Err and never panics (no underflow, no failed assert, no out-of-range read)
c16!(c16_tl06_read_size7, 12, read_instr_never_panics::<8>(&TimelineFormat06, 6, 2, 7));
//@ C16 c16_tl06_read_size8 quick default ECL timeline (TH06-07): read_instr on arbitrary header bytes whose size field is 8 (header only) returns Ok or Err and never panics (no underflow, no failed assert, no out-of-range read)
c16!(c16_tl06_read_size8, 12, read_instr_never_panics::<8>(&TimelineFormat06, 6, 2, 8));
//@ C16 c16_tl06_read_size12 quick default ECL timeline (TH06-07): read_instr on arbitrary header bytes whose size field is 12 (4 argument bytes) returns Ok or Err and never panics (no underflow, no failed assert, no out-of-range read)
c16!(c16_tl06_read_size12, 16, read_instr_never_panics::<12>(&TimelineFormat06, 6, 2, 12));
//@ C16 c16_tl06_read_size65535 quick default ECL timeline (TH06-07): read_instr on arbitrary header bytes whose size field is 65535 (negative as a signed 16-bit size) returns Ok or Err and never panics (no underflow, no failed assert, no out-of-range read)
c16!(c16_tl06_read_size65535, 12, read_instr_never_panics::<8>(&TimelineFormat06, 6, 2, 65535));
//@ C16 c16_tl08_read_size0 quick default ECL timeline (TH08+): read_instr on arbitrary header bytes whose size field is 0 (smaller than the header) returns Ok or Err and never panics (no underflow, no failed assert, no out-of-range read)
c16!(c16_tl08_read_size0, 12, read_instr_never_panics::<8>(&TimelineFormat08, 6, 1, 0));
//@ C16 c16_tl08_read_size7 quick default ECL timeline (TH08+): read_instr on arbitrary header bytes whose size field is 7 (one less than the header) returns Ok or Err and never panics (no underflow, no failed assert, no out-of-range read)
c16!(c16_tl08_read_size7, 12, read_instr_never_panics::<8>(&TimelineFormat08, 6, 1, 7));
//@ C16 c16_tl08_read_size8 quick default ECL timeline (TH08+): read_instr on arbitrary header bytes whose size field is 8 (header only) returns Ok or Err and never panics (no underflow, no failed assert, no out-of-range read)
c16!(c16_tl08_read_size8, 12, read_instr_never_panics::<8>(&TimelineFormat08, 6, 1, 8));
//@ C16 c16_tl08_read_size12 quick default ECL timeline (TH08+): read_instr on arbitrary header bytes whose size field is 12 (4 argument bytes) returns Ok or Err and never panics (no underflow, no failed assert, no out-of-range read)
c16!(c16_tl08_read_size12, 16, read_instr_never_panics::<12>(&TimelineFormat08, 6, 1, 12));
//@ C16 c16_label_ecl06_no_panic quick default ECL TH06-095 label decoding (signed relative offset) of an arbitrary 32-bit jump argument never panics
c16!(c16_label_ecl06_no_panic, 2, decode_label_never_panics(&OldeEclHooks { game: Game::Th07 }));

//@ C16 c16_ecl06_read_size13 quick default ECL (TH06-095): read_instr on arbitrary header bytes whose size field is 13 (one more than the header) returns Ok or Err and never panics (no underflow, no failed assert, no out-of-range read)
c16!(c16_ecl06_read_size13, 17, read_instr_never_panics::<13>(&OldeEclHooks { game: Game::Th07 }, 6, 2, 13));
//@ C16 c16_tl06_read_size9 quick default ECL timeline (TH06-07): read_instr on arbitrary header bytes whose size field is 9 (one more than the header) returns Ok or Err and never panics (no underflow, no failed assert, no out-of-range read)
c16!(c16_tl06_read_size9, 13, read_instr_never_panics::<9>(&TimelineFormat06, 6, 2, 9));
//@ C16 c16_tl08_read_size9 quick default ECL timeline (TH08+): read_instr on arbitrary header bytes whose size field is 9 (one more than the header) returns Ok or Err and never panics (no underflow, no failed assert, no out-of-range read)
c16!(c16_tl08_read_size9, 13, read_instr_never_panics::<9>(&TimelineFormat08, 6, 1, 9));

//@ C16 c16_ecl06_read_any16 quick default ECL (TH06-095): read_instr on 16 ARBITRARY bytes (size field symbolic too: every value, including sizes beyond the buffer, which end in an end-of-file error) returns Ok or Err and never panics
c16!(c16_ecl06_read_any16, 20, read_instr_never_panics::<16>(&OldeEclHooks { game: Game::Th07 }, 0, 0, 0));
//@ C16 c16_ecl06th06_read_any16 quick default ECL (EoSD): read_instr on 16 ARBITRARY bytes (size field symbolic too: every value, including sizes beyond the buffer, which end in an end-of-file error) returns Ok or Err and never panics
c16!(c16_ecl06th06_read_any16, 20, read_instr_never_panics::<16>(&OldeEclHooks { game: Game::Th06 }, 0, 0, 0));
//@ C16 c16_tl06_read_any12 quick default ECL timeline (TH06-07): read_instr on 12 ARBITRARY bytes (size field symbolic too: every value, including sizes beyond the buffer, which end in an end-of-file error) returns Ok or Err and never panics
c16!(c16_tl06_read_any12, 16, read_instr_never_panics::<12>(&TimelineFormat06, 0, 0, 0));
//@ C16 c16_tl08_read_any12 quick default ECL timeline (TH08+): read_instr on 12 ARBITRARY bytes (size field symbolic too: every value, including sizes beyond the buffer, which end in an end-of-file error) returns Ok or Err and never panics
c16!(c16_tl08_read_any12, 16, read_instr_never_panics::<12>(&TimelineFormat08, 0, 0, 0));

#[cfg(kani)]
#[path = "/verif/.cache/playback/ecl_06.rs"]
mod playback;
