//@module formats::ecl::ecl_06::verif_kani
// Contracts for the instruction-header writers/readers in src/formats/ecl/ecl_06.rs (property C03).
// The obligation bodies are shared: see contracts/kani/common.rs (instr_round_trip, instr_size_field,
// terminal_is_recognised).  One instantiation per format because the hook structs are private.

use super::*;
use crate::verif_common::{instr_time_is_stored, label_round_trip, instr_round_trip, instr_size_field, terminal_is_recognised, Stored, SizeField};

macro_rules! c03 {
    ($name:ident, $unwind:literal, $body:expr) => {
        #[kani::proof]
        #[kani::unwind($unwind)]
        #[kani::stub(alloc::fmt::format, crate::verif_common::stub_fmt_format)]
        #[kani::stub(crate::error::ErrorReported::new, crate::verif_common::stub_error_reported_new)]
        #[kani::stub(crate::io::nice_display_path, crate::verif_common::stub_nice_display_path)]
        #[kani::stub(crate::llir::fit_instr_field, crate::verif_common::stub_fit_instr_field)]
        #[kani::stub(crate::llir::forbid_reserved_opcode, crate::verif_common::stub_forbid_reserved_opcode)]
        fn $name() { $body }
    };
}
//@ C03 c03_ecl06_th06_rt_n4 quick default ECL (EoSD): write_instr then read_instr returns the same instruction, field for field (time, opcode, difficulty, blob; the parameter mask is the constant 0xFF in this game), for every header value and every 4-byte argument blob; whatever does not fit is rejected, never stored differently; the written length is instr_size
c03!(c03_ecl06_th06_rt_n4, 8, instr_round_trip::<4>(&OldeEclHooks { game: Game::Th06 }, Stored { param_mask: false, difficulty: true, extra_arg: false, pop_and_arg_count: false, maybe_terminal: false, ignore_param_mask: true }, |_| true));
//@ C03 c03_ecl06_th06_rt_n0 thorough default ECL (EoSD): write_instr then read_instr returns the same instruction, field for field (time, opcode, difficulty, blob; the parameter mask is the constant 0xFF in this game), for every header value and every 0-byte argument blob; whatever does not fit is rejected, never stored differently; the written length is instr_size
c03!(c03_ecl06_th06_rt_n0, 8, instr_round_trip::<0>(&OldeEclHooks { game: Game::Th06 }, Stored { param_mask: false, difficulty: true, extra_arg: false, pop_and_arg_count: false, maybe_terminal: false, ignore_param_mask: true }, |_| true));
//@ C03 c03_ecl06_th06_rt_n12 thorough default ECL (EoSD): write_instr then read_instr returns the same instruction, field for field (time, opcode, difficulty, blob; the parameter mask is the constant 0xFF in this game), for every header value and every 12-byte argument blob; whatever does not fit is rejected, never stored differently; the written length is instr_size
c03!(c03_ecl06_th06_rt_n12, 15, instr_round_trip::<12>(&OldeEclHooks { game: Game::Th06 }, Stored { param_mask: false, difficulty: true, extra_arg: false, pop_and_arg_count: false, maybe_terminal: false, ignore_param_mask: true }, |_| true));
//@ C03 c03_ecl06_th06_size_field quick default ECL (EoSD): for every blob length 0..=70000 either the writer rejects the instruction or the stored size field equals the true size (as the reader interprets it) and the written length is instr_size
c03!(c03_ecl06_th06_size_field, 4, instr_size_field(&OldeEclHooks { game: Game::Th06 }, Stored { param_mask: false, difficulty: true, extra_arg: false, pop_and_arg_count: false, maybe_terminal: false, ignore_param_mask: true }, SizeField { offset: 6, width: 2, counts_header: true, reader_max: 32767 }, 70000));
//@ C03 c03_ecl06_th06_terminal quick default ECL (EoSD): the end-of-script marker written by write_terminal_instr is recognised as such by read_instr
c03!(c03_ecl06_th06_terminal, 8, terminal_is_recognised(&OldeEclHooks { game: Game::Th06 }, false, 0));
//@ C03 c03_ecl06_th07_rt_n4 quick default ECL (TH07-095): write_instr then read_instr returns the same instruction, field for field (time, opcode, difficulty, param_mask, blob), for every header value and every 4-byte argument blob; whatever does not fit is rejected, never stored differently; the written length is instr_size
c03!(c03_ecl06_th07_rt_n4, 8, instr_round_trip::<4>(&OldeEclHooks { game: Game::Th07 }, Stored { param_mask: true, difficulty: true, extra_arg: false, pop_and_arg_count: false, maybe_terminal: false, ignore_param_mask: false }, |_| true));
//@ C03 c03_ecl06_th07_rt_n0 thorough default ECL (TH07-095): write_instr then read_instr returns the same instruction, field for field (time, opcode, difficulty, param_mask, blob), for every header value and every 0-byte argument blob; whatever does not fit is rejected, never stored differently; the written length is instr_size
c03!(c03_ecl06_th07_rt_n0, 8, instr_round_trip::<0>(&OldeEclHooks { game: Game::Th07 }, Stored { param_mask: true, difficulty: true, extra_arg: false, pop_and_arg_count: false, maybe_terminal: false, ignore_param_mask: false }, |_| true));
//@ C03 c03_ecl06_th07_rt_n12 thorough default ECL (TH07-095): write_instr then read_instr returns the same instruction, field for field (time, opcode, difficulty, param_mask, blob), for every header value and every 12-byte argument blob; whatever does not fit is rejected, never stored differently; the written length is instr_size
c03!(c03_ecl06_th07_rt_n12, 15, instr_round_trip::<12>(&OldeEclHooks { game: Game::Th07 }, Stored { param_mask: true, difficulty: true, extra_arg: false, pop_and_arg_count: false, maybe_terminal: false, ignore_param_mask: false }, |_| true));
//@ C03 c03_ecl06_th07_size_field quick default ECL (TH07-095): for every blob length 0..=70000 either the writer rejects the instruction or the stored size field equals the true size (as the reader interprets it) and the written length is instr_size
c03!(c03_ecl06_th07_size_field, 4, instr_size_field(&OldeEclHooks { game: Game::Th07 }, Stored { param_mask: true, difficulty: true, extra_arg: false, pop_and_arg_count: false, maybe_terminal: false, ignore_param_mask: false }, SizeField { offset: 6, width: 2, counts_header: true, reader_max: 32767 }, 70000));
//@ C03 c03_ecl06_th07_terminal quick default ECL (TH07-095): the end-of-script marker written by write_terminal_instr is recognised as such by read_instr
c03!(c03_ecl06_th07_terminal, 8, terminal_is_recognised(&OldeEclHooks { game: Game::Th07 }, false, 0));
//@ C03 c03_tl06_rt_n4 quick default ECL timeline (TH06-07): write_instr then read_instr returns the same instruction, field for field (time, first argument (extra_arg), opcode, blob; except the one header that is spelled like the end marker, see c03_tl06_marker_clash), for every header value and every 4-byte argument blob; whatever does not fit is rejected, never stored differently; the written length is instr_size
c03!(c03_tl06_rt_n4, 8, instr_round_trip::<4>(&TimelineFormat06, Stored { param_mask: false, difficulty: false, extra_arg: true, pop_and_arg_count: false, maybe_terminal: false, ignore_param_mask: false }, |i: &RawInstr| !(i.time == -1 && i.extra_arg == Some(4))));
//@ C03 c03_tl06_rt_n0 thorough default ECL timeline (TH06-07): write_instr then read_instr returns the same instruction, field for field (time, first argument (extra_arg), opcode, blob; except the one header that is spelled like the end marker, see c03_tl06_marker_clash), for every header value and every 0-byte argument blob; whatever does not fit is rejected, never stored differently; the written length is instr_size
c03!(c03_tl06_rt_n0, 8, instr_round_trip::<0>(&TimelineFormat06, Stored { param_mask: false, difficulty: false, extra_arg: true, pop_and_arg_count: false, maybe_terminal: false, ignore_param_mask: false }, |i: &RawInstr| !(i.time == -1 && i.extra_arg == Some(4))));
//@ C03 c03_tl06_rt_n12 thorough default ECL timeline (TH06-07): write_instr then read_instr returns the same instruction, field for field (time, first argument (extra_arg), opcode, blob; except the one header that is spelled like the end marker, see c03_tl06_marker_clash), for every header value and every 12-byte argument blob; whatever does not fit is rejected, never stored differently; the written length is instr_size
c03!(c03_tl06_rt_n12, 15, instr_round_trip::<12>(&TimelineFormat06, Stored { param_mask: false, difficulty: false, extra_arg: true, pop_and_arg_count: false, maybe_terminal: false, ignore_param_mask: false }, |i: &RawInstr| !(i.time == -1 && i.extra_arg == Some(4))));
//@ C03 c03_tl06_size_field quick default ECL timeline (TH06-07): for every blob length 0..=70000 either the writer rejects the instruction or the stored size field equals the true size (as the reader interprets it) and the written length is instr_size
c03!(c03_tl06_size_field, 4, instr_size_field(&TimelineFormat06, Stored { param_mask: false, difficulty: false, extra_arg: true, pop_and_arg_count: false, maybe_terminal: false, ignore_param_mask: false }, SizeField { offset: 6, width: 2, counts_header: true, reader_max: 32767 }, 70000));
//@ C03 c03_tl06_terminal quick default ECL timeline (TH06-07): the end-of-script marker written by write_terminal_instr is recognised as such by read_instr
c03!(c03_tl06_terminal, 12, terminal_is_recognised(&TimelineFormat06, false, 4));
//@ C03 c03_tl06_marker_clash quick default ECL timeline (TH06-07): an instruction with time -1 and first argument 4 is spelled like the end-of-script marker; it must either be rejected by the writer or be read back as an instruction (KNOWN FINDING on the pinned tree: it is written and then read back as the marker)
c03!(c03_tl06_marker_clash, 8, instr_round_trip::<4>(&TimelineFormat06, Stored { param_mask: false, difficulty: false, extra_arg: true, pop_and_arg_count: false, maybe_terminal: false, ignore_param_mask: false }, |i: &RawInstr| i.time == -1 && i.extra_arg == Some(4)));
//@ C03 c03_tl08_rt_n4 quick default ECL timeline (TH08+): write_instr then read_instr returns the same instruction, field for field (time, opcode, difficulty, blob), for every header value and every 4-byte argument blob; whatever does not fit is rejected, never stored differently; the written length is instr_size
c03!(c03_tl08_rt_n4, 8, instr_round_trip::<4>(&TimelineFormat08, Stored { param_mask: false, difficulty: true, extra_arg: false, pop_and_arg_count: false, maybe_terminal: false, ignore_param_mask: false }, |_| true));
//@ C03 c03_tl08_rt_n0 thorough default ECL timeline (TH08+): write_instr then read_instr returns the same instruction, field for field (time, opcode, difficulty, blob), for every header value and every 0-byte argument blob; whatever does not fit is rejected, never stored differently; the written length is instr_size
c03!(c03_tl08_rt_n0, 8, instr_round_trip::<0>(&TimelineFormat08, Stored { param_mask: false, difficulty: true, extra_arg: false, pop_and_arg_count: false, maybe_terminal: false, ignore_param_mask: false }, |_| true));
//@ C03 c03_tl08_rt_n12 thorough default ECL timeline (TH08+): write_instr then read_instr returns the same instruction, field for field (time, opcode, difficulty, blob), for every header value and every 12-byte argument blob; whatever does not fit is rejected, never stored differently; the written length is instr_size
c03!(c03_tl08_rt_n12, 15, instr_round_trip::<12>(&TimelineFormat08, Stored { param_mask: false, difficulty: true, extra_arg: false, pop_and_arg_count: false, maybe_terminal: false, ignore_param_mask: false }, |_| true));
//@ C03 c03_tl08_size_field quick default ECL timeline (TH08+): for every blob length 0..=70000 either the writer rejects the instruction or the stored size field equals the true size (as the reader interprets it) and the written length is instr_size
c03!(c03_tl08_size_field, 4, instr_size_field(&TimelineFormat08, Stored { param_mask: false, difficulty: true, extra_arg: false, pop_and_arg_count: false, maybe_terminal: false, ignore_param_mask: false }, SizeField { offset: 6, width: 1, counts_header: true, reader_max: 255 }, 70000));
//@ C03 c03_tl08_terminal quick default ECL timeline (TH08+): the end-of-script marker written by write_terminal_instr is recognised as such by read_instr
c03!(c03_tl08_terminal, 8, terminal_is_recognised(&TimelineFormat08, false, 0));

//@ C03 c03_label_ecl06 quick default ECL TH06-095 label encoding (signed offset relative to the jumping instruction): decode_label(cur, encode_label(cur, dest)) == dest for every pair of offsets below 2^31, forwards and backwards
c03!(c03_label_ecl06, 2, label_round_trip(&OldeEclHooks { game: Game::Th07 }, 1));

//@ C13 c13_ecl06_time_stored quick default ECL (TH06-095): if write_instr accepts an instruction, the time read back from the written bytes is the requested time, for every i32 time (a time that does not fit the field must be rejected, never stored differently)
c03!(c13_ecl06_time_stored, 8, instr_time_is_stored::<4>(&OldeEclHooks { game: Game::Th07 }, Stored { param_mask: true, difficulty: true, extra_arg: false, pop_and_arg_count: false, maybe_terminal: false, ignore_param_mask: false }, |_| true));
//@ C13 c13_tl06_time_stored quick default ECL timeline (TH06-07): if write_instr accepts an instruction, the time read back from the written bytes is the requested time, for every i32 time (a time that does not fit the field must be rejected, never stored differently)
c03!(c13_tl06_time_stored, 8, instr_time_is_stored::<4>(&TimelineFormat06, Stored { param_mask: false, difficulty: false, extra_arg: true, pop_and_arg_count: false, maybe_terminal: false, ignore_param_mask: false }, |_| true));
//@ C13 c13_tl08_time_stored quick default ECL timeline (TH08+): if write_instr accepts an instruction, the time read back from the written bytes is the requested time, for every i32 time (a time that does not fit the field must be rejected, never stored differently)
c03!(c13_tl08_time_stored, 8, instr_time_is_stored::<4>(&TimelineFormat08, Stored { param_mask: false, difficulty: true, extra_arg: false, pop_and_arg_count: false, maybe_terminal: false, ignore_param_mask: false }, |_| true));

#[cfg(kani)]
#[path = "/verif/.cache/playback/ecl_06.rs"]
mod playback;
