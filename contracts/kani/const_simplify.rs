//@module passes::const_simplify::verif_kani
// Contracts for src/passes/const_simplify.rs  (properties C11, and the evaluator half of C09).
//
// This file is compiled *inside* the real crate as a child module of
// `crate::passes::const_simplify` (see the `#[cfg(kani)] #[path = ...] mod verif_kani;`
// line at the end of that file), so `super::*` is the real code, private items included.
//
// Every `//@` line registers one named obligation with the engine:
//   //@ <property> <harness> <tier> <flag-group> <description>
// Spec functions here are written from the property text ("32-bit wrapping integer
// arithmetic, truncating division and casts, shift counts modulo 32, arithmetic vs logical
// right shift, IEEE single floats, C-style logical operators"), never from the code.

use super::*;
// vacuity guards: a cover that must be SATISFIED.  Compiled out (env VERIF_NO_COVER, set only by the
// engine's counterexample re-run) because Kani's concrete playback emits a single test per harness and
// prefers a satisfied cover over the failed assertion.
macro_rules! vcover {
    ($($t:tt)*) => { if option_env!("VERIF_NO_COVER").is_none() { kani::cover!($($t)*); } };
}
use crate::ast::{BinOpKind as B, UnOpKind as U, AssignOpKind as A};
use crate::value::ScalarValue as V;

// ---------------------------------------------------------------------------------------
// spec side

/// x mod 2^32, reinterpreted as two's complement.
fn wrap32(x: i64) -> i32 { (x as u64 & 0xFFFF_FFFF) as u32 as i32 }

fn int_result(op: B, a: i32, b: i32) -> Option<i32> {
    match op.const_eval(V::Int(a), V::Int(b)) {
        Some(V::Int(r)) => Some(r),
        Some(_) => { panic!("int op produced a non-int") },
        None => None,
    }
}

fn float_result(op: B, a: f32, b: f32) -> V {
    match op.const_eval(V::Float(a), V::Float(b)) {
        Some(v) => v,
        None => panic!("float op produced no value"),
    }
}

/// "IEEE single": equal bit for bit unless the exact result is a NaN, where any NaN will do.
fn same_f32(got: f32, want: f32) -> bool {
    if want.is_nan() { got.is_nan() } else { got.to_bits() == want.to_bits() }
}

fn expect_float(v: V) -> f32 {
    match v { V::Float(x) => x, _ => panic!("expected a float result") }
}
fn expect_int(v: V) -> i32 {
    match v { V::Int(x) => x, _ => panic!("expected an int result") }
}

// ---------------------------------------------------------------------------------------
// integer binary operators: all 2^64 operand pairs each

macro_rules! int_binop_harness {
    ($name:ident, $op:expr, |$a:ident, $b:ident| $spec:expr) => {
        #[kani::proof]
        fn $name() {
            let $a: i32 = kani::any();
            let $b: i32 = kani::any();
            let got = int_result($op, $a, $b);
            let want: i32 = $spec;
            assert!(got == Some(want));
        }
    };
}

//@ C11 c11_int_add quick default int `+` is addition modulo 2^32 (spec computed in i64)
int_binop_harness!(c11_int_add, B::Add, |a, b| wrap32(a as i64 + b as i64));
//@ C11 c11_int_sub quick default int `-` is subtraction modulo 2^32
int_binop_harness!(c11_int_sub, B::Sub, |a, b| wrap32(a as i64 - b as i64));
//@ C11 c11_int_mul quick default int `*` is multiplication modulo 2^32 (64-bit product in the spec)
int_binop_harness!(c11_int_mul, B::Mul, |a, b| wrap32((a as i64) * (b as i64)));
//@ C11 c11_int_eq quick default int `==` is exactly 0/1
int_binop_harness!(c11_int_eq, B::Eq, |a, b| if (a as i64) == (b as i64) { 1 } else { 0 });
//@ C11 c11_int_ne quick default int `!=` is exactly 0/1
int_binop_harness!(c11_int_ne, B::Ne, |a, b| if (a as i64) != (b as i64) { 1 } else { 0 });
//@ C11 c11_int_lt quick default int `<` is signed comparison, exactly 0/1
int_binop_harness!(c11_int_lt, B::Lt, |a, b| if (a as i64) < (b as i64) { 1 } else { 0 });
//@ C11 c11_int_le quick default int `<=` is signed comparison, exactly 0/1
int_binop_harness!(c11_int_le, B::Le, |a, b| if (a as i64) <= (b as i64) { 1 } else { 0 });
//@ C11 c11_int_gt quick default int `>` is signed comparison, exactly 0/1
int_binop_harness!(c11_int_gt, B::Gt, |a, b| if (a as i64) > (b as i64) { 1 } else { 0 });
//@ C11 c11_int_ge quick default int `>=` is signed comparison, exactly 0/1
int_binop_harness!(c11_int_ge, B::Ge, |a, b| if (a as i64) >= (b as i64) { 1 } else { 0 });

/// bit i of x
fn bit(x: i32, i: u32) -> bool { ((x as u32) >> i) & 1 == 1 }

macro_rules! bitwise_harness {
    ($name:ident, $op:expr, |$x:ident, $y:ident| $spec:expr) => {
        #[kani::proof]
        fn $name() {
            let a: i32 = kani::any();
            let b: i32 = kani::any();
            let i: u32 = kani::any();
            kani::assume(i < 32);
            let r = int_result($op, a, b).expect("bitwise op has a value");
            let $x = bit(a, i);
            let $y = bit(b, i);
            assert!(bit(r, i) == $spec);
        }
    };
}
//@ C11 c11_int_xor quick default int `^`: every result bit is the xor of the operand bits
bitwise_harness!(c11_int_xor, B::BitXor, |x, y| x != y);
//@ C11 c11_int_and quick default int `&`: every result bit is the and of the operand bits
bitwise_harness!(c11_int_and, B::BitAnd, |x, y| x && y);
//@ C11 c11_int_or quick default int `|`: every result bit is the or of the operand bits
bitwise_harness!(c11_int_or, B::BitOr, |x, y| x || y);

//@ C11 c11_int_lor quick default int `||` is C-style at truthiness level: nonzero iff either operand nonzero
#[kani::proof]
fn c11_int_lor() {
    let a: i32 = kani::any();
    let b: i32 = kani::any();
    let r = int_result(B::LogicOr, a, b).expect("|| has a value");
    assert!((r != 0) == (a != 0 || b != 0));
}
//@ C11 c11_int_land quick default int `&&` is C-style at truthiness level: nonzero iff both operands nonzero
#[kani::proof]
fn c11_int_land() {
    let a: i32 = kani::any();
    let b: i32 = kani::any();
    let r = int_result(B::LogicAnd, a, b).expect("&& has a value");
    assert!((r != 0) == (a != 0 && b != 0));
}

// Division.  CBMC encodes a divider as "fresh q, r with q*b + r = a": proving the *uniqueness* of
// that solution against an independently written equation is a multiplier-equivalence problem
// that no installed solver finishes on 32-bit operands (measured: cadical, kissat, z3, cvc5, all
// > 300 s).  The obligation is therefore split:
//   (1) full domain, against Rust's own `/` and `%` on i32 (trusted: the language defines them as
//       truncating division/remainder), with the MIN / -1 wrap stated explicitly;
//   (2) full domain, independent of Rust's operators: |r| < |b|, r has the sign of a, q has the
//       sign of a*b;
//   (3) BOUNDED stand-in, independent of Rust's operators: the full equation a = q*b + r for
//       |a|, |b| <= 4096 (labelled bounded, not counted as proved).
fn spec_trunc_div(a: i32, b: i32) -> i32 { if a == i32::MIN && b == -1 { i32::MIN } else { a / b } }
fn spec_trunc_rem(a: i32, b: i32) -> i32 { if a == i32::MIN && b == -1 { 0 } else { a % b } }

//@ C11 c11_int_div quick default int `/` is truncating division (Rust's `/` on i32 as the trusted primitive), MIN / -1 wraps to MIN; all a, all b != 0
#[kani::proof]
#[kani::solver(z3)]
fn c11_int_div() {
    let a: i32 = kani::any();
    let b: i32 = kani::any();
    kani::assume(b != 0);
    assert!(int_result(B::Div, a, b) == Some(spec_trunc_div(a, b)));
}
//@ C11 c11_int_rem quick default int `%` is the truncating remainder (sign of the dividend), MIN % -1 = 0; all a, all b != 0
#[kani::proof]
#[kani::solver(cvc5)]
fn c11_int_rem() {
    let a: i32 = kani::any();
    let b: i32 = kani::any();
    kani::assume(b != 0);
    assert!(int_result(B::Rem, a, b) == Some(spec_trunc_rem(a, b)));
}
//@ C11 c11_int_div_rem_signs quick default int `/` `%` full domain, operator-independent: |r| < |b|, r == 0 or sign(r) == sign(a), q == 0 or sign(q) == sign(a)*sign(b) (except MIN / -1)
#[kani::proof]
fn c11_int_div_rem_signs() {
    let a: i32 = kani::any();
    let b: i32 = kani::any();
    kani::assume(b != 0);
    let q = int_result(B::Div, a, b).expect("a / b has a value when b != 0");
    let r = int_result(B::Rem, a, b).expect("a % b has a value when b != 0");
    assert!(r.unsigned_abs() < b.unsigned_abs());
    assert!(r == 0 || ((r < 0) == (a < 0)));
    assert!(q == 0 || (a == i32::MIN && b == -1) || ((q < 0) == ((a < 0) != (b < 0))));
    if a == i32::MIN && b == -1 { assert!(q == i32::MIN && r == 0); }
}
//@ C11 c11_int_div_rem_equation_small quick default,bounded BOUNDED |a|,|b| <= 4096: a = q*b + r with |r| < |b| and sign(r) = sign(a) (the defining equation of truncating division, in 64-bit arithmetic)
#[kani::proof]
fn c11_int_div_rem_equation_small() {
    let a: i32 = kani::any();
    let b: i32 = kani::any();
    kani::assume(b != 0 && b >= -4096 && b <= 4096);
    kani::assume(a >= -4096 && a <= 4096);
    vcover!(a == -4096 && b == 4095);
    let q = int_result(B::Div, a, b).expect("a / b has a value when b != 0");
    let r = int_result(B::Rem, a, b).expect("a % b has a value when b != 0");
    assert!((q as i64) * (b as i64) + (r as i64) == a as i64);
    let abs_b: i64 = if b < 0 { -(b as i64) } else { b as i64 };
    let abs_r: i64 = if r < 0 { -(r as i64) } else { r as i64 };
    assert!(abs_r < abs_b);
    assert!(r == 0 || ((r < 0) == (a < 0)));
}
//@ C11 c11_int_div_rem_equation_64k thorough default,bounded BOUNDED |a|,|b| <= 65536: the defining equation a = q*b + r with |r| < |b| and sign(r) = sign(a)
#[kani::proof]
fn c11_int_div_rem_equation_64k() {
    let a: i32 = kani::any();
    let b: i32 = kani::any();
    kani::assume(b != 0 && b >= -65536 && b <= 65536);
    kani::assume(a >= -65536 && a <= 65536);
    let q = int_result(B::Div, a, b).expect("a / b has a value when b != 0");
    let r = int_result(B::Rem, a, b).expect("a % b has a value when b != 0");
    assert!((q as i64) * (b as i64) + (r as i64) == a as i64);
    let abs_b: i64 = if b < 0 { -(b as i64) } else { b as i64 };
    let abs_r: i64 = if r < 0 { -(r as i64) } else { r as i64 };
    assert!(abs_r < abs_b);
    assert!(r == 0 || ((r < 0) == (a < 0)));
}
//@ C11 c11_int_div_rem_equation_small_b thorough default,bounded BOUNDED all a, |b| <= 16: the same defining equation
#[kani::proof]
fn c11_int_div_rem_equation_small_b() {
    let a: i32 = kani::any();
    let b: i32 = kani::any();
    kani::assume(b != 0 && b >= -16 && b <= 16);
    let q = int_result(B::Div, a, b).expect("a / b has a value when b != 0");
    let r = int_result(B::Rem, a, b).expect("a % b has a value when b != 0");
    let q_math: i64 = if a == i32::MIN && b == -1 { 1i64 << 31 } else { q as i64 };
    assert!(q == wrap32(q_math));
    assert!(q_math * (b as i64) + (r as i64) == a as i64);
    let abs_b: i64 = if b < 0 { -(b as i64) } else { b as i64 };
    let abs_r: i64 = if r < 0 { -(r as i64) } else { r as i64 };
    assert!(abs_r < abs_b);
    assert!(r == 0 || ((r < 0) == (a < 0)));
}
//@ C11 c11_div_zero_is_error quick default int `a / 0` has no compile-time value (it is reported as an error, not evaluated and not a panic)
#[kani::proof]
fn c11_div_zero_is_error() {
    let a: i32 = kani::any();
    assert!(int_result(B::Div, a, 0).is_none());
}
//@ C11 c11_rem_zero_is_error quick default int `a % 0` has no compile-time value
#[kani::proof]
fn c11_rem_zero_is_error() {
    let a: i32 = kani::any();
    assert!(int_result(B::Rem, a, 0).is_none());
}

// shifts: "shift counts modulo 32, arithmetic vs logical right shift".
// Spec in 64-bit arithmetic so that no 32-bit shift appears on the spec side.
fn count_mod_32(b: i32) -> u32 { (((b as i64) % 32 + 32) % 32) as u32 }

//@ C11 c11_int_shl quick default int `<<` = a * 2^(b mod 32) modulo 2^32
#[kani::proof]
#[kani::stub_verified(handle_shift_rhs)]
fn c11_int_shl() {
    let a: i32 = kani::any();
    let b: i32 = kani::any();
    let r = int_result(B::ShiftLeft, a, b).expect("<< has a value");
    let want = wrap32(((a as i64) << count_mod_32(b)) as i64);
    assert!(r == want);
}
//@ C11 c11_int_shr quick default int `>>` is the arithmetic (sign-propagating) shift by b mod 32 = floor(a / 2^k)
#[kani::proof]
#[kani::stub_verified(handle_shift_rhs)]
fn c11_int_shr() {
    let a: i32 = kani::any();
    let b: i32 = kani::any();
    let r = int_result(B::ShiftRightSigned, a, b).expect(">> has a value");
    // floor division by 2^k on the sign-extended 64-bit value
    let want = ((a as i64) >> count_mod_32(b)) as i32;
    assert!(r == want);
}
//@ C11 c11_int_ushr quick default int `>>>` is the logical (zero-filling) shift by b mod 32 of the 32-bit pattern
#[kani::proof]
#[kani::stub_verified(handle_shift_rhs)]
fn c11_int_ushr() {
    let a: i32 = kani::any();
    let b: i32 = kani::any();
    let r = int_result(B::ShiftRightUnsigned, a, b).expect(">>> has a value");
    let want = (((a as u32) as u64) >> count_mod_32(b)) as u32 as i32;
    assert!(r == want);
}
//@ C11 c11_contract_handle_shift_rhs quick default function contract of handle_shift_rhs: result < 32 and congruent to the count modulo 32
#[kani::proof_for_contract(handle_shift_rhs)]
fn c11_contract_handle_shift_rhs() {
    let x: i32 = kani::any();
    let r = handle_shift_rhs(x);
    // the postcondition again as a plain assertion, so that a counterexample also fails when
    // replayed natively (contract instrumentation does not exist outside Kani)
    assert!(r < 32 && (r as i64 - x as i64) % 32 == 0);
}

// ---------------------------------------------------------------------------------------
// float binary operators: every pair of bit patterns.
// Spec: the same operation in f64 rounded once to f32 (exact for + - * / because f64 carries
// more than 2*24+2 significand bits, so the double rounding is innocuous).

macro_rules! float_arith_harness {
    ($name:ident, $op:expr, |$a:ident, $b:ident| $spec:expr) => {
        #[kani::proof]
        fn $name() {
            let $a: f32 = kani::any();
            let $b: f32 = kani::any();
            let got = expect_float(float_result($op, $a, $b));
            let want: f32 = $spec;
            assert!(same_f32(got, want));
        }
    };
}
//@ C11 c11_float_add quick float float `+` is IEEE single addition (spec: f64 sum rounded to f32)
float_arith_harness!(c11_float_add, B::Add, |a, b| ((a as f64) + (b as f64)) as f32);
//@ C11 c11_float_sub quick float float `-` is IEEE single subtraction (spec: f64 difference rounded to f32)
float_arith_harness!(c11_float_sub, B::Sub, |a, b| ((a as f64) - (b as f64)) as f32);
// `*` and `/`: the f64-rounded spec is out of CBMC's reach (`*`: no verdict in 900 s; `/`: CBMC's
// own model of subnormal division disagrees with the hardware - its counterexample
// 2.998779e-43 / 2.387765e-39 passes when replayed natively).  The spec for these two is Rust's
// own f32 operator, i.e. "IEEE single" is the trusted primitive; what is decided is that the
// right operator is applied to the operands in the right order.
//@ C11 c11_float_mul quick float float `*` is the IEEE single product (Rust's f32 `*` as the trusted primitive)
float_arith_harness!(c11_float_mul, B::Mul, |a, b| a * b);
//@ C11 c11_float_div quick float float `/` is the IEEE single quotient a/b, operands in this order (Rust's f32 `/` as the trusted primitive)
#[kani::proof]
#[kani::solver(z3)]
fn c11_float_div() {
    let a: f32 = kani::any();
    let b: f32 = kani::any();
    let got = expect_float(float_result(B::Div, a, b));
    assert!(same_f32(got, a / b));
}

macro_rules! float_cmp_harness {
    ($name:ident, $op:expr, |$a:ident, $b:ident| $spec:expr) => {
        #[kani::proof]
        fn $name() {
            let a32: f32 = kani::any();
            let b32: f32 = kani::any();
            let got = expect_int(float_result($op, a32, b32));
            // comparisons are decided on the exactly widened values
            let $a = a32 as f64;
            let $b = b32 as f64;
            let want: i32 = if $spec { 1 } else { 0 };
            assert!(got == want);
        }
    };
}
//@ C11 c11_float_eq quick float float `==` (IEEE: false with a NaN operand), exactly 0/1
float_cmp_harness!(c11_float_eq, B::Eq, |a, b| a == b);
//@ C11 c11_float_ne quick float float `!=` (IEEE: true with a NaN operand), exactly 0/1
float_cmp_harness!(c11_float_ne, B::Ne, |a, b| !(a == b));
//@ C11 c11_float_lt quick float float `<`, exactly 0/1
float_cmp_harness!(c11_float_lt, B::Lt, |a, b| a < b);
//@ C11 c11_float_le quick float float `<=`, exactly 0/1
float_cmp_harness!(c11_float_le, B::Le, |a, b| a <= b);
//@ C11 c11_float_gt quick float float `>`, exactly 0/1
float_cmp_harness!(c11_float_gt, B::Gt, |a, b| b < a);
//@ C11 c11_float_ge quick float float `>=`, exactly 0/1
float_cmp_harness!(c11_float_ge, B::Ge, |a, b| b <= a);

// ---------------------------------------------------------------------------------------
// unary operators

//@ C11 c11_un_neg_i quick default int unary `-` = 0 - x modulo 2^32
#[kani::proof]
fn c11_un_neg_i() {
    let x: i32 = kani::any();
    assert!(U::Neg.const_eval(V::Int(x)) == Some(V::Int(wrap32(0i64 - x as i64))));
}
//@ C11 c11_un_not quick default `!x` is exactly 1 for x == 0 and 0 otherwise
#[kani::proof]
fn c11_un_not() {
    let x: i32 = kani::any();
    let want = if x == 0 { 1 } else { 0 };
    assert!(U::Not.const_eval(V::Int(x)) == Some(V::Int(want)));
}
//@ C11 c11_un_bitnot quick default `~x` flips all 32 bits ( = -x - 1 modulo 2^32 )
#[kani::proof]
fn c11_un_bitnot() {
    let x: i32 = kani::any();
    assert!(U::BitNot.const_eval(V::Int(x)) == Some(V::Int(wrap32(-(x as i64) - 1))));
}
//@ C11 c11_un_int_i quick default `int(x)` on an int is the identity
#[kani::proof]
fn c11_un_int_i() {
    let x: i32 = kani::any();
    assert!(U::CastI.const_eval(V::Int(x)) == Some(V::Int(x)));
}
//@ C11 c11_un_float_i quick float `float(x)` on an int is the nearest single (spec: exact f64 value rounded once)
#[kani::proof]
fn c11_un_float_i() {
    let x: i32 = kani::any();
    let got = match U::CastF.const_eval(V::Int(x)) { Some(V::Float(f)) => f, _ => panic!("float(int) must be a float") };
    assert!(got.to_bits() == ((x as f64) as f32).to_bits());
}
//@ C11 c11_un_neg_f quick float float unary `-` flips exactly the sign bit
#[kani::proof]
fn c11_un_neg_f() {
    let x: f32 = kani::any();
    let got = match U::Neg.const_eval(V::Float(x)) { Some(V::Float(f)) => f, _ => panic!("-float must be a float") };
    assert!(got.to_bits() == x.to_bits() ^ 0x8000_0000);
}
//@ C11 c11_un_int_f quick float `int(x)` on a float truncates toward zero for |x| < 2^31 and never panics elsewhere
#[kani::proof]
fn c11_un_int_f() {
    let x: f32 = kani::any();
    let got = match U::CastI.const_eval(V::Float(x)) { Some(V::Int(i)) => i, _ => panic!("int(float) must be an int") };
    let xd = x as f64;
    if xd > -2147483649.0 && xd < 2147483648.0 {
        // truncation toward zero: |got| <= |x| < |got| + 1, same sign (or zero)
        let g = got as f64;
        if xd >= 0.0 { assert!(g <= xd && xd < g + 1.0); } else { assert!(g >= xd && xd > g - 1.0); }
    }
}
//@ C11 c11_un_float_f quick float `float(x)` on a float is the identity (bit for bit)
#[kani::proof]
fn c11_un_float_f() {
    let x: f32 = kani::any();
    let got = match U::CastF.const_eval(V::Float(x)) { Some(V::Float(f)) => f, _ => panic!("float(float) must be a float") };
    assert!(got.to_bits() == x.to_bits());
}
//@ C11 c11_un_sigils_defer quick default unary `$`/`%` operators have no value of their own (they are evaluated through cast_by_ty_sigil)
#[kani::proof]
fn c11_un_sigils_defer() {
    let x: i32 = kani::any();
    let f: f32 = kani::any();
    assert!(U::EncodeI.const_eval(V::Int(x)).is_none());
    assert!(U::EncodeF.const_eval(V::Int(x)).is_none());
    assert!(U::EncodeI.const_eval(V::Float(f)).is_none());
    assert!(U::EncodeF.const_eval(V::Float(f)).is_none());
}

// ---------------------------------------------------------------------------------------
// relational lemmas used by lowering and by the VM

fn arb_binop() -> B {
    let k: u8 = kani::any();
    kani::assume(k < 19);
    match k {
        0 => B::Add, 1 => B::Sub, 2 => B::Mul, 3 => B::Div, 4 => B::Rem,
        5 => B::Eq, 6 => B::Ne, 7 => B::Lt, 8 => B::Le, 9 => B::Gt, 10 => B::Ge,
        11 => B::BitOr, 12 => B::BitXor, 13 => B::BitAnd, 14 => B::LogicOr, 15 => B::LogicAnd,
        16 => B::ShiftLeft, 17 => B::ShiftRightSigned, _ => B::ShiftRightUnsigned,
    }
}

//@ C11 c11_negate_comparison_int quick default negate_comparison(op) evaluates to the logical negation of op on all int pairs, and is defined exactly on the six comparisons
#[kani::proof]
fn c11_negate_comparison_int() {
    let op = arb_binop();
    let a: i32 = kani::any();
    let b: i32 = kani::any();
    let is_cmp = matches!(op, B::Eq | B::Ne | B::Lt | B::Le | B::Gt | B::Ge);
    match op.negate_comparison() {
        Some(neg) => {
            assert!(is_cmp);
            let r = int_result(op, a, b).expect("comparison has a value");
            let n = int_result(neg, a, b).expect("comparison has a value");
            assert!((r != 0) != (n != 0));
        },
        None => assert!(!is_cmp),
    }
}
//@ C11 c11_negate_comparison_float quick float negate_comparison(op) evaluates to the logical negation of op on all non-NaN float pairs
#[kani::proof]
fn c11_negate_comparison_float() {
    let op = arb_binop();
    let a: f32 = kani::any();
    let b: f32 = kani::any();
    kani::assume(!a.is_nan() && !b.is_nan());
    if let Some(neg) = op.negate_comparison() {
        let r = expect_int(float_result(op, a, b));
        let n = expect_int(float_result(neg, a, b));
        assert!((r != 0) != (n != 0));
    }
}
//@ C11 c11_assignop_binop quick default `x op= y` maps to the binary operator spelled `op` (only `=` has none)
#[kani::proof]
fn c11_assignop_binop() {
    assert!(A::Assign.corresponding_binop() == None);
    assert!(A::Add.corresponding_binop() == Some(B::Add));
    assert!(A::Sub.corresponding_binop() == Some(B::Sub));
    assert!(A::Mul.corresponding_binop() == Some(B::Mul));
    assert!(A::Div.corresponding_binop() == Some(B::Div));
    assert!(A::Rem.corresponding_binop() == Some(B::Rem));
    assert!(A::BitOr.corresponding_binop() == Some(B::BitOr));
    assert!(A::BitXor.corresponding_binop() == Some(B::BitXor));
    assert!(A::BitAnd.corresponding_binop() == Some(B::BitAnd));
    assert!(A::ShiftLeft.corresponding_binop() == Some(B::ShiftLeft));
    assert!(A::ShiftRightSigned.corresponding_binop() == Some(B::ShiftRightSigned));
    assert!(A::ShiftRightUnsigned.corresponding_binop() == Some(B::ShiftRightUnsigned));
}

// ---------------------------------------------------------------------------------------
// reads through a type sigil (`$x`, `%x`): ScalarValue::{read_as_int, read_as_float, cast_by_ty_sigil}

//@ C11 c11_sigil_none quick default reading a value without a sigil returns it unchanged
#[kani::proof]
fn c11_sigil_none() {
    let x: i32 = kani::any();
    let f: f32 = kani::any();
    assert!(V::Int(x).cast_by_ty_sigil(None) == Some(V::Int(x)));
    match V::Float(f).cast_by_ty_sigil(None) { Some(V::Float(g)) => assert!(g.to_bits() == f.to_bits()), _ => panic!("must stay a float") }
}
//@ C11 c11_sigil_int quick float `$x`: an int is read unchanged, a float is truncated toward zero for |x| < 2^31 (no panic elsewhere); same as int(x)
#[kani::proof]
fn c11_sigil_int() {
    let x: i32 = kani::any();
    let f: f32 = kani::any();
    assert!(V::Int(x).cast_by_ty_sigil(Some(ast::VarSigil::Int)) == Some(V::Int(x)));
    assert!(V::Int(x).read_as_int() == Some(x));
    let got = match V::Float(f).cast_by_ty_sigil(Some(ast::VarSigil::Int)) { Some(V::Int(i)) => i, _ => panic!("$float must be an int") };
    assert!(V::Float(f).read_as_int() == Some(got));
    let fd = f as f64;
    if fd > -2147483649.0 && fd < 2147483648.0 {
        let g = got as f64;
        if fd >= 0.0 { assert!(g <= fd && fd < g + 1.0); } else { assert!(g >= fd && fd > g - 1.0); }
    }
    // agrees with the cast operator
    assert!(U::CastI.const_eval(V::Float(f)) == Some(V::Int(got)));
}
//@ C11 c11_sigil_float quick float `%x`: a float is read unchanged, an int becomes the nearest single; same as float(x)
#[kani::proof]
fn c11_sigil_float() {
    let x: i32 = kani::any();
    let f: f32 = kani::any();
    match V::Float(f).cast_by_ty_sigil(Some(ast::VarSigil::Float)) { Some(V::Float(g)) => assert!(g.to_bits() == f.to_bits()), _ => panic!("%float must be a float") }
    let got = match V::Int(x).cast_by_ty_sigil(Some(ast::VarSigil::Float)) { Some(V::Float(g)) => g, _ => panic!("%int must be a float") };
    assert!(got.to_bits() == ((x as f64) as f32).to_bits());
    match V::Int(x).read_as_float() { Some(g) => assert!(g.to_bits() == got.to_bits()), None => panic!("read_as_float(int) has a value") }
}
// sqrt is NOT under contract: CBMC models sqrtf as a nondeterministic over-approximation (two calls on the
// same argument may differ), so even "equals Rust's f32::sqrt" yields a counterexample that passes when
// replayed natively (measured in the thorough tier).  Listed under `unverified`.

// ---------------------------------------------------------------------------------------
// literal <-> value: the folder replaces a constant subexpression by `Expr::from(value)` and reads
// operands back with `Expr::to_const()` ("replacing a constant subexpression by its compile-time
// value never changes what a script does" needs this pair to be inverse, bit for bit)

//@ C11 c11_literal_roundtrip_int quick default the literal the folder writes for an int value reads back (to_const / as_const_int) as the same value, for every i32
#[kani::proof]
fn c11_literal_roundtrip_int() {
    let x: i32 = kani::any();
    let e: ast::Expr = V::Int(x).into();
    assert!(e.as_const_int() == Some(x));
    assert!(e.as_const_float().is_none());
    assert!(e.to_const() == Some(V::Int(x)));
    core::mem::forget(e);
}
//@ C11 c11_literal_roundtrip_float quick float the literal the folder writes for a float value reads back as the same bit pattern (NaN payloads and -0.0 included), for every f32
#[kani::proof]
fn c11_literal_roundtrip_float() {
    let f: f32 = kani::any();
    let e: ast::Expr = V::Float(f).into();
    match e.as_const_float() { Some(g) => assert!(g.to_bits() == f.to_bits()), None => panic!("float literal must read back as a float") }
    assert!(e.as_const_int().is_none());
    match e.to_const() { Some(V::Float(g)) => assert!(g.to_bits() == f.to_bits()), _ => panic!("float literal must read back as a float value") }
    core::mem::forget(e);
}

// ---------------------------------------------------------------------------------------
// C09 (second sentence): "For every accepted expression, the type the checker assigns equals the
// type of the value obtained by evaluating it" - for operator expressions the checker's type is
// ast::Expr::{binop,unop}_ty_from_arg_ty, the value is const_eval's.  Operand types are restricted
// to the combinations the documented operator classes admit; on those, the evaluator must also
// not reach `uncaught_type_error()` ("accepted => evaluable").

use crate::value::ScalarType as T;

fn arb_unop() -> U {
    let k: u8 = kani::any();
    kani::assume(k < 14);
    match k {
        0 => U::Not, 1 => U::Neg, 2 => U::BitNot, 3 => U::Sin, 4 => U::Cos, 5 => U::Tan, 6 => U::Asin,
        7 => U::Acos, 8 => U::Atan, 9 => U::Sqrt, 10 => U::EncodeI, 11 => U::EncodeF, 12 => U::CastI, _ => U::CastF,
    }
}

//@ C09 c09_binop_ty_int quick default every binary operator on two ints (all 19 operators, all operand pairs with a defined value): the evaluated value has the type the checker's table predicts, and evaluation never reaches the type-error panic
#[kani::proof]
#[kani::stub_verified(handle_shift_rhs)]
fn c09_binop_ty_int() {
    let op = arb_binop();
    let a: i32 = kani::any();
    let b: i32 = kani::any();
    kani::assume(!(matches!(op, B::Div | B::Rem) && b == 0));
    let v = op.const_eval(V::Int(a), V::Int(b)).expect("defined");
    assert!(v.ty() == ast::Expr::binop_ty_from_arg_ty(op, T::Int));
    // documented result types
    assert!(v.ty() == T::Int);
}
//@ C09 c09_binop_ty_float quick float arithmetic and comparison operators on two floats (the classes that admit floats): value type equals the predicted type (float for + - * / %, int for comparisons), no type-error panic
#[kani::proof]
fn c09_binop_ty_float() {
    let op = arb_binop();
    kani::assume(matches!(op.class(), ast::OpClass::Arithmetic | ast::OpClass::Comparison));
    kani::assume(!matches!(op, B::Rem));      // float % is fmodf: over-approximated by CBMC, typed below
    let a: f32 = kani::any();
    let b: f32 = kani::any();
    let v = op.const_eval(V::Float(a), V::Float(b)).expect("float operators always have a value");
    assert!(v.ty() == ast::Expr::binop_ty_from_arg_ty(op, T::Float));
    let want = if matches!(op.class(), ast::OpClass::Comparison) { T::Int } else { T::Float };
    assert!(v.ty() == want);
    assert!(ast::Expr::binop_ty_from_arg_ty(B::Rem, T::Float) == T::Float);
}
//@ C09 c09_op_classes quick default the operator classes are the documented ones: + - * / % arithmetic, six comparisons, | ^ & bitwise, || && logical, << >> >>> shift; only comparisons are comparisons
#[kani::proof]
fn c09_op_classes() {
    let op = arb_binop();
    let want = match op {
        B::Add | B::Sub | B::Mul | B::Div | B::Rem => ast::OpClass::Arithmetic,
        B::Eq | B::Ne | B::Lt | B::Le | B::Gt | B::Ge => ast::OpClass::Comparison,
        B::BitOr | B::BitXor | B::BitAnd => ast::OpClass::Bitwise,
        B::LogicOr | B::LogicAnd => ast::OpClass::Logical,
        B::ShiftLeft | B::ShiftRightSigned | B::ShiftRightUnsigned => ast::OpClass::Shift,
    };
    assert!(op.class() == want);
    assert!(op.is_comparison() == (want == ast::OpClass::Comparison));
}
//@ C09 c09_unop_ty_int quick float unary operators that admit an int operand (- ! ~ int float $ %): value type equals the predicted type, no type-error panic
#[kani::proof]
fn c09_unop_ty_int() {
    let op = arb_unop();
    kani::assume(matches!(op, U::Neg | U::Not | U::BitNot | U::CastI | U::CastF | U::EncodeI | U::EncodeF));
    let x: i32 = kani::any();
    let v = match op.as_ty_sigil() {
        Some(sigil) => V::Int(x).cast_by_ty_sigil(Some(sigil)).expect("numeric"),
        None => op.const_eval(V::Int(x)).expect("defined"),
    };
    assert!(v.ty() == ast::Expr::unop_ty_from_arg_ty(op, T::Int));
    let want = if matches!(op, U::CastF | U::EncodeF) { T::Float } else { T::Int };
    assert!(v.ty() == want);
}
//@ C09 c09_unop_ty_float quick float unary operators that admit a float operand (- int float $ % sqrt): value type equals the predicted type, no type-error panic
#[kani::proof]
fn c09_unop_ty_float() {
    let op = arb_unop();
    kani::assume(matches!(op, U::Neg | U::CastI | U::CastF | U::EncodeI | U::EncodeF | U::Sqrt));
    let x: f32 = kani::any();
    let v = match op.as_ty_sigil() {
        Some(sigil) => V::Float(x).cast_by_ty_sigil(Some(sigil)).expect("numeric"),
        None => op.const_eval(V::Float(x)).expect("defined"),
    };
    assert!(v.ty() == ast::Expr::unop_ty_from_arg_ty(op, T::Float));
    let want = if matches!(op, U::CastI | U::EncodeI) { T::Int } else { T::Float };
    assert!(v.ty() == want);
}
//@ C09 c09_unop_ty_table quick default the remaining rows of the unary typing table: sin cos tan asin acos atan sqrt give float; - keeps its operand's type; ! ~ give int, for either operand type
#[kani::proof]
fn c09_unop_ty_table() {
    let op = arb_unop();
    let t = if kani::any() { T::Int } else { T::Float };
    let got = ast::Expr::unop_ty_from_arg_ty(op, t);
    let want = match op {
        U::Neg => t,
        U::Not | U::BitNot | U::CastI | U::EncodeI => T::Int,
        U::Sin | U::Cos | U::Tan | U::Asin | U::Acos | U::Atan | U::Sqrt | U::CastF | U::EncodeF => T::Float,
    };
    assert!(got == want);
}

#[cfg(kani)]
#[path = "/verif/.cache/playback/const_simplify.rs"]
mod playback;
