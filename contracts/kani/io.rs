//@module io::verif_kani
// Contracts for the byte-level string leaves in src/io.rs and the mask stream in src/llir/abi.rs
// (property C15: text in string arguments and metadata survives compile and decompile).
//
// Both directions of every string encoding a signature can request are built from these leaves:
//   compile:    bytes ++ NUL -> [furigana append] -> null_pad(bs) | resize(len) -> apply_xor_mask(m)
//   decompile:  apply_xor_mask(m) -> trim_first_nul -> decode
// and file metadata strings go through write_cstring / read_cstring_blockwise.
// Under contract are the leaves; the *order* in which encode_args / decode_args call them is inside
// functions neither back end can reach (C12) - the pipeline lemmas below compose the leaves in the
// harness, in the order read from the source, and are labelled as such.

use super::*;
use crate::llir::AcceleratingByteMask;
use crate::verif_common::noop_emitter;
use crate::pos::Sp;
use crate::diagnostic::Diagnostic;

const MAXLEN: usize = 6;

fn arb_bytes(maxlen: usize) -> Vec<u8> {
    let raw: [u8; MAXLEN] = kani::any();
    let n: usize = kani::any();
    kani::assume(n <= maxlen && maxlen <= MAXLEN);
    let mut v = Vec::with_capacity(MAXLEN + 10);
    let mut i = 0;
    while i < n { v.push(raw[i]); i += 1; }
    v
}

fn arb_mask() -> AcceleratingByteMask {
    AcceleratingByteMask { mask: kani::any(), vel: kani::any(), accel: kani::any() }
}

//@ C15 c15_mask_stream_step quick default AcceleratingByteMask::next never ends, yields the current mask byte, then mask += vel and vel += accel (mod 256): the stream depends only on the initial triple, so compile and decompile see the same stream
#[kani::proof]
fn c15_mask_stream_step() {
    let m0 = arb_mask();
    let mut m = m0;
    let out = m.next();
    assert!(out == Some(m0.mask));
    assert!(m.mask as u32 == (m0.mask as u32 + m0.vel as u32) % 256);
    assert!(m.vel as u32 == (m0.vel as u32 + m0.accel as u32) % 256);
    assert!(m.accel == m0.accel);
    assert!(AcceleratingByteMask::constant(m0.mask) == AcceleratingByteMask { mask: m0.mask, vel: 0, accel: 0 });
}

//@ C15 c15_mask_stream_closed_form quick default,bounded BOUNDED k < 8: the k-th mask byte is mask + k*vel + k(k-1)/2*accel (mod 256) for k < 8 and every initial triple
#[kani::proof]
#[kani::unwind(10)]
fn c15_mask_stream_closed_form() {
    let m0 = arb_mask();
    let mut m = m0;
    let mut k: u32 = 0;
    while k < 8 {
        let got = m.next().unwrap();
        let want = (m0.mask as u32 + k * m0.vel as u32 + (k * (k.wrapping_sub(1)) / 2) * m0.accel as u32) % 256;
        if k >= 1 { assert!(got as u32 == want); } else { assert!(got == m0.mask); }
        k += 1;
    }
}

//@ C15 c15_xor_mask_bytewise quick default,bounded BOUNDED len <= 6: apply_xor_mask xors byte i with the i-th byte of the mask stream, keeps the length, for every byte string and every mask triple
#[kani::proof]
#[kani::unwind(9)]
fn c15_xor_mask_bytewise() {
    let orig = arb_bytes(MAXLEN);
    let mask = arb_mask();
    let mut e = Encoded(orig.clone());
    e.apply_xor_mask(mask);
    assert!(e.0.len() == orig.len());
    let mut stream = mask;
    let mut i = 0;
    while i < orig.len() {
        let mb = stream.next().unwrap();
        assert!(e.0[i] == orig[i] ^ mb);
        i += 1;
    }
}

//@ C15 c15_xor_involution quick default,bounded BOUNDED len <= 6: masking twice with the same triple is the identity (decompile undoes compile), every byte string, every triple
#[kani::proof]
#[kani::unwind(9)]
fn c15_xor_involution() {
    let orig = arb_bytes(MAXLEN);
    let mask = arb_mask();
    let mut e = Encoded(orig.clone());
    e.apply_xor_mask(mask);
    e.apply_xor_mask(mask);
    assert!(e.0 == orig);
}

//@ C15 c15_null_pad quick default,bounded BOUNDED len <= 6, block size 1..=8: null_pad makes the length a positive multiple of the block size greater than the old length, keeps the old bytes as a prefix and fills the rest with NUL (so at least one NUL terminates the text)
#[kani::proof]
#[kani::unwind(17)]
fn c15_null_pad() {
    let orig = arb_bytes(MAXLEN);
    let bs: usize = kani::any();
    kani::assume(bs >= 1 && bs <= 8);
    let mut e = Encoded(orig.clone());
    e.null_pad(bs);
    let n = e.0.len();
    assert!(n % bs == 0);
    assert!(n > orig.len());
    let mut i = 0;
    while i < n {
        if i < orig.len() { assert!(e.0[i] == orig[i]); } else { assert!(e.0[i] == 0); }
        i += 1;
    }
}

//@ C15 c15_trim_first_nul quick default,bounded BOUNDED len <= 6: trim_first_nul leaves exactly the bytes before the first NUL (the whole string if there is none), whatever follows the NUL and whether or not warnings are requested
#[kani::proof]
#[kani::unwind(9)]
#[kani::stub(alloc::fmt::format, crate::verif_common::stub_fmt_format)]
#[kani::stub(crate::error::ErrorReported::new, crate::verif_common::stub_error_reported_new)]
fn c15_trim_first_nul() {
    let orig = arb_bytes(MAXLEN);
    let warn: bool = kani::any();
    let emitter = noop_emitter();
    let mut e = Encoded(orig.clone());
    e.trim_first_nul(&emitter, warn);
    // spec: first index holding 0, else len
    let mut z = 0;
    while z < orig.len() && orig[z] != 0 { z += 1; }
    assert!(e.0.len() == z);
    let mut i = 0;
    while i < z { assert!(e.0[i] == orig[i]); i += 1; }
    core::mem::forget(emitter);
}

fn nul_free(b: &[u8]) -> bool {
    let mut i = 0;
    while i < b.len() { if b[i] == 0 { return false; } i += 1; }
    true
}

// The composed lemmas use CONCRETE lengths (symbolic contents): with symbolic lengths every Vec
// operation forks on reallocation and CBMC runs out of memory (measured: 24 GB at len <= 5).

fn arb_text<const N: usize>() -> Vec<u8> {
    let raw: [u8; N] = kani::any();
    let mut v = Vec::with_capacity(N + 12);
    let mut i = 0;
    while i < N { kani::assume(raw[i] != 0); v.push(raw[i]); i += 1; }
    v
}

fn pipeline_block_padded<const N: usize>(bs: usize) {
    let text = arb_text::<N>();
    let mask = arb_mask();
    // compile side (src/llir/lower.rs, String arm)
    let mut e = Encoded(text.clone());
    e.0.push(0);
    if e.len() % bs != 0 { e.null_pad(bs); }
    assert!(e.len() % bs == 0);
    e.apply_xor_mask(mask);
    // decompile side (src/llir/raise/early.rs, String arm)
    let emitter = noop_emitter();
    let mut d = Encoded(e.0.clone());
    d.apply_xor_mask(mask);
    d.trim_first_nul(&emitter, true);
    assert!(d.0 == text);
    core::mem::forget(emitter);
}

macro_rules! pipeline_block_harness {
    ($name:ident, $n:literal, $bs:literal) => {
        #[kani::proof]
        #[kani::unwind(12)]
        #[kani::stub(alloc::fmt::format, crate::verif_common::stub_fmt_format)]
        #[kani::stub(crate::error::ErrorReported::new, crate::verif_common::stub_error_reported_new)]
        fn $name() { pipeline_block_padded::<$n>($bs); }
    };
}
//@ C15 c15_pipeline_block_n3_bs4 quick default,bounded BOUNDED text length 3, block 4 (text+NUL exactly fills the block: no padding added), leaves composed in the harness in encode_args/decode_args order: (text ++ NUL, pad unless aligned, mask) then (unmask, trim at first NUL) returns the text, every NUL-free text, every mask triple
pipeline_block_harness!(c15_pipeline_block_n3_bs4, 3, 4);
//@ C15 c15_pipeline_block_n4_bs4 quick default,bounded BOUNDED text length 4, block 4 (a whole block of padding), same composed lemma
pipeline_block_harness!(c15_pipeline_block_n4_bs4, 4, 4);
//@ C15 c15_pipeline_block_n0_bs4 quick default,bounded BOUNDED empty text, block 4, same composed lemma
pipeline_block_harness!(c15_pipeline_block_n0_bs4, 0, 4);
//@ C15 c15_pipeline_block_n2_bs1 quick default,bounded BOUNDED text length 2, block 1, same composed lemma
pipeline_block_harness!(c15_pipeline_block_n2_bs1, 2, 1);

fn pipeline_fixed<const N: usize>(buf: usize, nulless: bool) {
    let text = arb_text::<N>();
    let mask = arb_mask();
    let mut e = Encoded(text.clone());
    if !nulless { e.0.push(0); }
    if e.len() > buf { return; }        // encode_args reports "string argument too large for buffer"
    e.0.resize(buf, 0);
    e.apply_xor_mask(mask);
    assert!(e.len() == buf);
    let emitter = noop_emitter();
    let mut d = Encoded(e.0.clone());
    d.apply_xor_mask(mask);
    if nulless && !d.0.contains(&0) { d.0.push(0); }
    d.trim_first_nul(&emitter, true);
    assert!(d.0 == text);
    core::mem::forget(emitter);
}
macro_rules! pipeline_fixed_harness {
    ($name:ident, $n:literal, $buf:literal, $nulless:literal) => {
        #[kani::proof]
        #[kani::unwind(12)]
        #[kani::stub(alloc::fmt::format, crate::verif_common::stub_fmt_format)]
        #[kani::stub(crate::error::ErrorReported::new, crate::verif_common::stub_error_reported_new)]
        fn $name() { pipeline_fixed::<$n>($buf, $nulless); }
    };
}
//@ C15 c15_pipeline_fixed_n3_buf4 quick default,bounded BOUNDED text length 3 in a 4-byte NUL-terminated buffer (exactly fits), leaves composed in the harness: comes back unchanged
pipeline_fixed_harness!(c15_pipeline_fixed_n3_buf4, 3, 4, false);
//@ C15 c15_pipeline_fixed_n2_buf6 quick default,bounded BOUNDED text length 2 in a 6-byte NUL-terminated buffer: comes back unchanged
pipeline_fixed_harness!(c15_pipeline_fixed_n2_buf6, 2, 6, false);
//@ C15 c15_pipeline_fixed_nulless_n4_buf4 quick default,bounded BOUNDED text length 4 in a 4-byte buffer without terminator (nulless, completely full): comes back unchanged
pipeline_fixed_harness!(c15_pipeline_fixed_nulless_n4_buf4, 4, 4, true);
//@ C15 c15_pipeline_fixed_nulless_n2_buf4 quick default,bounded BOUNDED text length 2 in a 4-byte nulless buffer: comes back unchanged
pipeline_fixed_harness!(c15_pipeline_fixed_nulless_n2_buf4, 2, 4, true);

fn cstring_roundtrip<const N: usize>(bs: usize) {
    let text = arb_text::<N>();
    let mut w = std::io::Cursor::new(Vec::with_capacity(N + 12));
    w.write_cstring(&Encoded(text.clone()), bs).ok().expect("writing to a Vec cannot fail");
    let written = w.into_inner();
    assert!(written.len() % bs == 0 && written.len() > text.len() && written.len() <= text.len() + bs);
    let mut i = 0;
    while i < written.len() {
        if i < text.len() { assert!(written[i] == text[i]); } else { assert!(written[i] == 0); }
        i += 1;
    }
    let mut r = std::io::Cursor::new(&written[..]);
    let back = r.read_cstring_blockwise(bs).ok().expect("reading back what was written cannot hit EOF");
    assert!(back.0 == text);
    assert!(r.position() as usize == written.len());
}
macro_rules! cstring_harness {
    ($name:ident, $n:literal, $bs:literal) => {
        #[kani::proof]
        #[kani::unwind(12)]
        fn $name() { cstring_roundtrip::<$n>($bs); }
    };
}
//@ C15 c15_cstring_roundtrip_n3_bs4 quick default,bounded BOUNDED text length 3, block 4: write_cstring writes the text padded with NULs to a positive multiple of the block size, read_cstring_blockwise consumes exactly those bytes and returns the text (ANM paths/names use block 16, ECL sub names block 1)
cstring_harness!(c15_cstring_roundtrip_n3_bs4, 3, 4);
//@ C15 c15_cstring_roundtrip_n4_bs4 quick default,bounded BOUNDED text length 4, block 4 (a full block of NULs is appended), same round trip
cstring_harness!(c15_cstring_roundtrip_n4_bs4, 4, 4);
//@ C15 c15_cstring_roundtrip_n5_bs4 quick default,bounded BOUNDED text length 5, block 4 (two blocks), same round trip
cstring_harness!(c15_cstring_roundtrip_n5_bs4, 5, 4);
//@ C15 c15_cstring_roundtrip_n3_bs1 quick default,bounded BOUNDED text length 3, block 1 (ECL sub names), same round trip
cstring_harness!(c15_cstring_roundtrip_n3_bs1, 3, 1);

// ---------------------------------------------------------------------------------------
// Fixed-size metadata strings (STD stage/BGM names: 128 bytes, mission.msg lines: 64 bytes):
// "A string ... that does not fit is rejected with an error."  The Shift-JIS transcoder is an external
// crate; here it is replaced by a stub that returns an ARBITRARY byte string (any bytes, any length
// <= 6), so the obligation holds for whatever the transcoder produces.

static mut STUB_ENCODED: [u8; MAXLEN] = [0; MAXLEN];
static mut STUB_ENCODED_LEN: usize = 0;

pub fn stub_encode<S: AsRef<str> + ?Sized>(_str: &Sp<S>, _enc: Encoding) -> Result<Encoded, Diagnostic> {
    let mut v = Vec::with_capacity(MAXLEN + 10);
    let mut i = 0;
    unsafe {
        while i < STUB_ENCODED_LEN { v.push(STUB_ENCODED[i]); i += 1; }
    }
    Ok(Encoded(v))
}

//@ C15 c15_encode_fixed_size quick default,bounded BOUNDED encoded length <= 6, buffer 1..=8 (transcoder stubbed by arbitrary bytes): encode_fixed_size succeeds exactly when the ENCODED BYTES plus a terminating NUL fit the buffer; on success the buffer has the requested size, starts with the encoded bytes and is NUL-filled after them; otherwise an error is returned and nothing is truncated
#[kani::proof]
#[kani::unwind(10)]
#[kani::stub(alloc::fmt::format, crate::verif_common::stub_fmt_format)]
#[kani::stub(crate::io::Encoded::encode, stub_encode)]
fn c15_encode_fixed_size() {
    let bytes: [u8; MAXLEN] = kani::any();
    let n: usize = kani::any();
    kani::assume(n <= MAXLEN);
    unsafe { STUB_ENCODED = bytes; STUB_ENCODED_LEN = n; }
    let buf: usize = kani::any();
    kani::assume(buf >= 1 && buf <= 8);
    let text = sp!("text");    // its content is irrelevant: the transcoder is the stub above
    match Encoded::encode_fixed_size(&text, DEFAULT_ENCODING, buf) {
        Ok(e) => {
            assert!(n < buf, "accepted a string that does not fit with its terminator");
            assert!(e.0.len() == buf, "buffer does not have the requested size");
            let mut i = 0;
            while i < buf {
                if i < n { assert!(e.0[i] == bytes[i], "encoded bytes were changed"); } else { assert!(e.0[i] == 0, "padding is not NUL"); }
                i += 1;
            }
        },
        Err(d) => {
            assert!(n >= buf, "rejected a string that fits");
            core::mem::forget(d);
        },
    }
}

//@ C16 c16_cstring_blockwise_no_panic quick default,bounded BOUNDED 8 bytes, block 4: read_cstring_blockwise on arbitrary bytes (terminated or not) returns the text or an end-of-file error; it never panics and never reads past the buffer
#[kani::proof]
#[kani::unwind(12)]
fn c16_cstring_blockwise_no_panic() {
    let bytes: [u8; 8] = kani::any();
    let mut r = std::io::Cursor::new(&bytes[..]);
    match r.read_cstring_blockwise(4) {
        Ok(e) => {
            // whatever is returned is a prefix of the buffer without trailing NULs
            assert!(e.0.len() <= 8);
            core::mem::forget(e);
        },
        Err(err) => {
            // only possible when no block ended with a NUL
            assert!(bytes[3] != 0 && bytes[7] != 0, "end-of-file reported although a block was terminated");
            core::mem::forget(err);
        },
    }
    assert!(r.position() <= 8);
}

#[cfg(kani)]
#[path = "/verif/.cache/playback/io.rs"]
mod playback;
