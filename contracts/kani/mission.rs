//@module formats::mission::verif_kani
// Contracts for the ciphered text lines of mission.msg files (src/formats/mission.rs; property C15:
// text in file metadata survives compile and decompile).  Each line is a 64-byte NUL-padded buffer
// from which the writer SUBTRACTS an accelerating byte stream (depending on stage, scene, player and
// the line number) and to which the reader ADDS the same stream.  The Shift-JIS transcoder is
// replaced in both directions (`encode` returns arbitrary NUL-free bytes, `decode` records what it is
// handed), so the obligation is: for every cipher key and every line number, what the reader hands
// to the decoder is exactly what the encoder produced.

use super::*;
use crate::diagnostic::Diagnostic;

const TEXT_MAX: usize = 6;
static mut TEXT_ENCODED: [u8; TEXT_MAX] = [0; TEXT_MAX];
static mut TEXT_ENCODED_LEN: usize = 0;
static mut TEXT_DECODED: [u8; TEXT_MAX] = [0; TEXT_MAX];
static mut TEXT_DECODED_LEN: usize = usize::MAX;

pub fn stub_text_encode<S: AsRef<str> + ?Sized>(_str: &Sp<S>, _enc: crate::io::Encoding) -> Result<Encoded, Diagnostic> {
    let mut v = Vec::with_capacity(80);
    let mut i = 0;
    unsafe { while i < TEXT_ENCODED_LEN { v.push(TEXT_ENCODED[i]); i += 1; } }
    Ok(Encoded(v))
}
pub fn stub_text_decode(this: &Encoded, _enc: crate::io::Encoding) -> Result<String, Diagnostic> {
    unsafe {
        TEXT_DECODED_LEN = this.0.len();
        let mut i = 0;
        while i < this.0.len() && i < TEXT_MAX { TEXT_DECODED[i] = this.0[i]; i += 1; }
    }
    Ok(String::new())
}

fn text_line_roundtrip<const N: usize>() {
    let emitter = crate::verif_common::noop_emitter();
    let raw: [u8; N] = kani::any();
    let mut bytes = [0u8; TEXT_MAX];
    let mut k = 0;
    while k < N { kani::assume(raw[k] != 0); bytes[k] = raw[k]; k += 1; }
    unsafe { TEXT_ENCODED = bytes; TEXT_ENCODED_LEN = N; }
    let stage: u8 = kani::any();
    let scene: u8 = kani::any();
    let player: u8 = kani::any();
    let mut text = Vec::with_capacity(1);
    text.push(sp!(String::new()));           // content irrelevant: the transcoder is the stub
    let mut w = BinWriter::from_writer(&emitter, "x", std::io::Cursor::new(Vec::<u8>::with_capacity(80)));
    match write_mission_text_lines(&mut w, &emitter, ZunMissionCipher { stage, scene, player }, &text) {
        Ok(()) => {},
        Err(e) => { core::mem::forget(e); assert!(false, "a short line must be accepted"); return; },
    }
    let written: Vec<u8> = w.into_inner().into_inner();
    assert!(written.len() == 64, "a text line is 64 bytes");
    let mut r = BinReader::from_reader(&emitter, "x", std::io::Cursor::new(written));
    match read_mission_text_lines::<1>(&mut r, &emitter, ZunMissionCipher { stage, scene, player }) {
        Ok(lines) => core::mem::forget(lines),
        Err(e) => { core::mem::forget(e); assert!(false, "written line cannot be read back"); return; },
    }
    unsafe {
        assert!(TEXT_DECODED_LEN == N, "decoder received a different number of bytes than were encoded");
        let mut i = 0;
        while i < N { assert!(TEXT_DECODED[i] == bytes[i], "decoder received different bytes"); i += 1; }
    }
    core::mem::forget(text);
    core::mem::forget(emitter);
}
macro_rules! text_harness {
    ($name:ident, $n:literal) => {
        #[kani::proof]
        #[kani::unwind(68)]
        #[kani::stub(alloc::fmt::format, crate::verif_common::stub_fmt_format)]
        #[kani::stub(crate::error::ErrorReported::new, crate::verif_common::stub_error_reported_new)]
        #[kani::stub(crate::io::nice_display_path, crate::verif_common::stub_nice_display_path)]
        #[kani::stub(crate::diagnostic::RootEmitter::emit, crate::verif_common::stub_root_emit)]
        #[kani::stub(crate::io::Encoded::encode, stub_text_encode)]
        #[kani::stub(crate::io::Encoded::decode, stub_text_decode)]
        fn $name() { text_line_roundtrip::<$n>(); }
    };
}
//@ C15 c15_mission_line_n6 thorough default,bounded BOUNDED encoded length 6, first line: same ciphered-line round trip with a longer text
text_harness!(c15_mission_line_n6, 6);
//@ C15 c15_mission_line_n3 quick default,bounded BOUNDED encoded length 3, first line (transcoder stubbed in both directions): a mission.msg text line is 64 bytes, and for every cipher key (stage, scene, player) the reader's added stream undoes the writer's subtracted stream: the decoder receives exactly the encoded bytes
text_harness!(c15_mission_line_n3, 3);

// (A round trip of a whole TH125 entry - header + six ciphered lines, where writer and reader derive the
// cipher key separately - was tried: no verdict in 600 s.  Only the line codec with a shared key is under contract.)

#[cfg(kani)]
#[path = "/verif/.cache/playback/mission.rs"]
mod playback;
