//@module passes::semantics::time_and_difficulty::verif_kani
// Contracts for src/passes/semantics/time_and_difficulty.rs (property C13, compile side; the
// difficulty-stack frame conditions also serve C14's "the label permits").
//
// Rule contract, from the property text: "scripts start at 0, `N:` sets the time, `+N:` adds to it,
// a statement without a label inherits the previous statement's time, and labels at the start or
// end of a block take effect there" - i.e. entering/leaving blocks and leaving statements never
// changes the time, and only the two label kinds change it on entry.
//
// Every ast::Stmt built here is mem::forget-ed: dropping the recursive AST type makes CBMC diverge
// (measured); no property depends on drop glue.

use super::*;
use core::mem::forget;

pub(crate) fn mk_stmt(kind: ast::StmtKind) -> Sp<ast::Stmt> {
    sp!(ast::Stmt { node_id: None, diff_label: None, offset_comment: None, kind })
}

pub(crate) fn helper_at(prev: i32) -> TimeAndDifficultyHelper {
    let mut h = TimeAndDifficultyHelper::new();
    h.enter_root_block();
    h.enter_block();
    // put the helper in the state "previous statement had time `prev`" through the public rule
    let s = mk_stmt(ast::StmtKind::AbsTimeLabel(sp!(prev)));
    h.enter_stmt(&s).ok().expect("abs label cannot fail");
    h.exit_stmt(&s);
    forget(s);
    h
}

//@ C13 c13_root_starts_at_zero quick default scripts start at time 0 (and with every difficulty bit enabled): enter_root_block establishes time() == 0
#[kani::proof]
fn c13_root_starts_at_zero() {
    let mut h = TimeAndDifficultyHelper::new();
    h.enter_root_block();
    assert!(h.time() == 0);
    assert!(h.difficulty_mask().mask() == 0xFF);
    h.enter_block();
    assert!(h.time() == 0);
    forget(h);
}

//@ C13 c13_rule_abs quick default `N:` sets the time to N: for every previous time and every N, after entering the label statement time() == N, and it stays N after leaving it
#[kani::proof]
fn c13_rule_abs() {
    let prev: i32 = kani::any();
    let n: i32 = kani::any();
    let mut h = helper_at(prev);
    assert!(h.time() == prev);
    let s = mk_stmt(ast::StmtKind::AbsTimeLabel(sp!(n)));
    assert!(h.enter_stmt(&s).is_ok());
    assert!(h.time() == n);
    h.exit_stmt(&s);
    assert!(h.time() == n);
    forget(s);
    forget(h);
}

//@ C13 c13_rule_rel_wrapping quick default `+N:` adds N to the time (32-bit wrapping, spec computed in i64): for every previous time and every literal N
#[kani::proof]
fn c13_rule_rel_wrapping() {
    let prev: i32 = kani::any();
    let n: i32 = kani::any();
    let mut h = helper_at(prev);
    let s = mk_stmt(ast::StmtKind::RelTimeLabel { delta: sp!(n.into()), _absolute_time_comment: None });
    assert!(h.enter_stmt(&s).is_ok());
    let want = ((prev as i64 + n as i64) as u64 & 0xFFFF_FFFF) as u32 as i32;
    assert!(h.time() == want);
    h.exit_stmt(&s);
    assert!(h.time() == want);
    forget(s);
    forget(h);
}

macro_rules! frame_harness {
    ($name:ident, $kind:expr) => {
        #[kani::proof]
        fn $name() {
            let prev: i32 = kani::any();
            let mut h = helper_at(prev);
            let s = mk_stmt($kind);
            assert!(h.enter_stmt(&s).is_ok());
            assert!(h.time() == prev);
            h.exit_stmt(&s);
            assert!(h.time() == prev);
            forget(s);
            forget(h);
        }
    };
}
//@ C13 c13_frame_noinstruction quick default a statement that is not a time label inherits the previous statement's time: NoInstruction (the bookend at block edges)
frame_harness!(c13_frame_noinstruction, ast::StmtKind::NoInstruction);
//@ C13 c13_frame_block quick default a free block statement does not change the time on entry or exit
frame_harness!(c13_frame_block, ast::StmtKind::Block(ast::Block(Vec::new())));
//@ C13 c13_frame_return quick default a non-label statement (return) inherits the previous statement's time
frame_harness!(c13_frame_return, ast::StmtKind::Return { keyword: sp!(()), value: None });
//@ C13 c13_frame_interrupt_label quick default an interrupt label is not a time label: the time is inherited
frame_harness!(c13_frame_interrupt_label, ast::StmtKind::InterruptLabel(sp!(ast::Expr::from(3))));

//@ C13 c13_block_frame quick default entering and leaving a block never changes the time (labels at block edges take effect where they stand); a difficulty label applies from its statement's entry to its exit and blocks inherit the enclosing mask
#[kani::proof]
fn c13_block_frame() {
    let prev: i32 = kani::any();
    let m: u32 = kani::any();
    kani::assume(m < 256);
    let mut h = helper_at(prev);
    let outer = h.difficulty_mask();
    h.enter_block();
    assert!(h.time() == prev && h.difficulty_mask() == outer);
    // a time label as the last thing inside the block is still in force after the block
    let n: i32 = kani::any();
    let s = mk_stmt(ast::StmtKind::AbsTimeLabel(sp!(n)));
    assert!(h.enter_stmt(&s).is_ok());
    h.exit_stmt(&s);
    h.exit_block();
    assert!(h.time() == n && h.difficulty_mask() == outer);
    // difficulty label frame
    let mut labelled = mk_stmt(ast::StmtKind::NoInstruction);
    labelled.value.diff_label = Some(sp!(ast::DiffLabel {
        mask: Some(BitSet32::from_mask(m)),
        string: sp!(ast::LitString { string: String::new() }),
    }));
    assert!(h.enter_stmt(&labelled).is_ok());
    assert!(h.difficulty_mask().mask() == m && h.time() == n);
    h.enter_block();
    assert!(h.difficulty_mask().mask() == m);
    h.exit_block();
    h.exit_stmt(&labelled);
    assert!(h.difficulty_mask() == outer && h.time() == n);
    forget(labelled);
    forget(s);
    forget(h);
}

#[cfg(kani)]
#[path = "/verif/.cache/playback/time_and_difficulty.rs"]
mod playback;
