//@module formats::msg::verif_kani
// Contracts for the instruction-header writers/readers in src/formats/msg.rs (property C03).
// The obligation bodies are shared: see contracts/kani/common.rs (instr_round_trip, instr_size_field,
// terminal_is_recognised).  One instantiation per format because the hook structs are private.

use super::*;
use crate::verif_common::{read_instr_never_panics, decode_label_never_panics, instr_time_is_stored, label_round_trip, instr_round_trip, instr_size_field, terminal_is_recognised, Stored, SizeField};

macro_rules! c03 {
    ($name:ident, $unwind:literal, $body:expr) => {
        #[kani::proof]
        #[kani::unwind($unwind)]
        #[kani::stub(alloc::fmt::format, crate::verif_common::stub_fmt_format)]
        #[kani::stub(crate::error::ErrorReported::new, crate::verif_common::stub_error_reported_new)]
        #[kani::stub(crate::io::nice_display_path, crate::verif_common::stub_nice_display_path)]
        #[kani::stub(crate::llir::fit_instr_field, crate::verif_common::stub_fit_instr_field)]
        #[kani::stub(crate::llir::forbid_reserved_opcode, crate::verif_common::stub_forbid_reserved_opcode)]
        fn $name() { $body }
    };
}
macro_rules! c16 {
    ($name:ident, $unwind:literal, $body:expr) => {
        #[kani::proof]
        #[kani::unwind($unwind)]
        #[kani::stub(alloc::fmt::format, crate::verif_common::stub_fmt_format)]
        #[kani::stub(crate::error::ErrorReported::new, crate::verif_common::stub_error_reported_new)]
        #[kani::stub(crate::io::nice_display_path, crate::verif_common::stub_nice_display_path)]
        #[kani::stub(crate::diagnostic::RootEmitter::emit, crate::verif_common::stub_root_emit)]
        #[kani::stub(crate::llir::fit_instr_field, crate::verif_common::stub_fit_instr_field)]
        #[kani::stub(crate::llir::forbid_reserved_opcode, crate::verif_common::stub_forbid_reserved_opcode)]
        fn $name() { $body }
    };
}
//@ C03 c03_msg_rt_n4 quick default MSG: write_instr then read_instr returns the same instruction, field for field (time, opcode, blob), for every header value and every 4-byte argument blob; whatever does not fit is rejected, never stored differently; the written length is instr_size
c03!(c03_msg_rt_n4, 8, instr_round_trip::<4>(&MsgHooks { language: LanguageKey::Msg }, Stored { param_mask: false, difficulty: false, extra_arg: false, pop_and_arg_count: false, maybe_terminal: true, ignore_param_mask: false }, |_| true));
//@ C03 c03_msg_rt_n0 thorough default MSG: write_instr then read_instr returns the same instruction, field for field (time, opcode, blob), for every header value and every 0-byte argument blob; whatever does not fit is rejected, never stored differently; the written length is instr_size
c03!(c03_msg_rt_n0, 8, instr_round_trip::<0>(&MsgHooks { language: LanguageKey::Msg }, Stored { param_mask: false, difficulty: false, extra_arg: false, pop_and_arg_count: false, maybe_terminal: true, ignore_param_mask: false }, |_| true));
//@ C03 c03_msg_rt_n12 thorough default MSG: write_instr then read_instr returns the same instruction, field for field (time, opcode, blob), for every header value and every 12-byte argument blob; whatever does not fit is rejected, never stored differently; the written length is instr_size
c03!(c03_msg_rt_n12, 15, instr_round_trip::<12>(&MsgHooks { language: LanguageKey::Msg }, Stored { param_mask: false, difficulty: false, extra_arg: false, pop_and_arg_count: false, maybe_terminal: true, ignore_param_mask: false }, |_| true));
//@ C03 c03_msg_size_field quick default MSG: for every blob length 0..=70000 either the writer rejects the instruction or the stored size field equals the true size (as the reader interprets it) and the written length is instr_size
c03!(c03_msg_size_field, 4, instr_size_field(&MsgHooks { language: LanguageKey::Msg }, Stored { param_mask: false, difficulty: false, extra_arg: false, pop_and_arg_count: false, maybe_terminal: true, ignore_param_mask: false }, SizeField { offset: 3, width: 1, counts_header: false, reader_max: 255 }, 70000));
//@ C03 c03_msg_terminal quick default MSG: the end-of-script marker written by write_terminal_instr is recognised as such by read_instr
c03!(c03_msg_terminal, 8, terminal_is_recognised(&MsgHooks { language: LanguageKey::Msg }, true, 0));

//@ C03 c03_label_absolute quick default default label encoding (MSG, ANM, STD TH095+: absolute offset): decode_label(encode_label(dest)) == dest for every offset below 2^31
c03!(c03_label_absolute, 2, label_round_trip(&MsgHooks { language: LanguageKey::Msg }, 1));

//@ C13 c13_msg_time_stored quick default MSG: if write_instr accepts an instruction, the time read back from the written bytes is the requested time, for every i32 time (a time that does not fit the field must be rejected, never stored differently)
c03!(c13_msg_time_stored, 8, instr_time_is_stored::<4>(&MsgHooks { language: LanguageKey::Msg }, Stored { param_mask: false, difficulty: false, extra_arg: false, pop_and_arg_count: false, maybe_terminal: true, ignore_param_mask: false }, |_| true));

// ---------------------------------------------------------------------------------------
// C16, header level: see read_instr_never_panics / decode_label_never_panics in common.rs
//@ C16 c16_msg_read_size0 quick default MSG: read_instr on arbitrary header bytes whose size field is 0 (no arguments) returns Ok or Err and never panics (no underflow, no failed assert, no out-of-range read)
c16!(c16_msg_read_size0, 12, read_instr_never_panics::<4>(&MsgHooks { language: LanguageKey::Msg }, 3, 1, 0));
//@ C16 c16_msg_read_size4 quick default MSG: read_instr on arbitrary header bytes whose size field is 4 (4 argument bytes) returns Ok or Err and never panics (no underflow, no failed assert, no out-of-range read)
c16!(c16_msg_read_size4, 12, read_instr_never_panics::<8>(&MsgHooks { language: LanguageKey::Msg }, 3, 1, 4));
//@ C16 c16_label_absolute_no_panic quick default default label decoding (MSG, ANM, STD TH095+) of an arbitrary 32-bit jump argument never panics
c16!(c16_label_absolute_no_panic, 2, decode_label_never_panics(&MsgHooks { language: LanguageKey::Msg }));

//@ C16 c16_msg_read_size3 quick default MSG: read_instr on arbitrary header bytes whose size field is 3 (3 argument bytes: not a multiple of 4) returns Ok or Err and never panics (no underflow, no failed assert, no out-of-range read)
c16!(c16_msg_read_size3, 12, read_instr_never_panics::<7>(&MsgHooks { language: LanguageKey::Msg }, 3, 1, 3));

//@ C16 c16_msg_read_any8 quick default MSG: read_instr on 8 ARBITRARY bytes (size field symbolic too: every value, including sizes beyond the buffer, which end in an end-of-file error) returns Ok or Err and never panics
c16!(c16_msg_read_any8, 12, read_instr_never_panics::<8>(&MsgHooks { language: LanguageKey::Msg }, 0, 0, 0));

#[cfg(kani)]
#[path = "/verif/.cache/playback/msg.rs"]
mod playback;

