//@module image::color::verif_kani
// Contracts for src/image/color.rs  (property C17: extracted images recompile to the same textures).
//
// The property's round trip "texture bytes -> extracted image -> texture bytes" goes, per pixel,
// through `Components::from(P)` (decode to 8-bit ARGB) and `P::from(Components)` (encode).
// Contract, from the property text: for every pixel value p of every supported format,
//     P::from(Components::from(p)) == p
// (exhaustive: all 65 536 RGB565 / ARGB4444 values, all 256 grey values, all 2^32 ARGB8888 values,
// symbolically).  The alpha given to alpha-less formats is deliberately not asserted.

use super::*;

// ---------------------------------------------------------------------------------------
// change_bit_depth: Kani function contract (attributes on the real function), proved for the
// instantiations the codecs use, then used *instead of the body* by the pixel harnesses.

macro_rules! cbd_contract_harness {
    ($name:ident, $in:literal, $out:literal) => {
        #[kani::proof_for_contract(change_bit_depth)]
        fn $name() {
            let x: u8 = kani::any();
            // precondition restated so that the native replay sees the same input domain
            kani::assume((x as u32) < (1u32 << $in));
            let r = change_bit_depth::<$in, $out>(x);
            // postcondition restated as plain assertions (contract instrumentation exists only under Kani)
            assert!(($out == 8) || (r as u32) < (1u32 << $out));
            if $out >= $in { assert!((r >> ($out - $in)) == x); } else { assert!(r == x >> ($in - $out)); }
        }
    };
}
//@ C17 c17_contract_change_bit_depth_4_8 quick default change_bit_depth::<4,8>: contract (result keeps x in its top 4 bits, no shift out of range) for every 4-bit x
cbd_contract_harness!(c17_contract_change_bit_depth_4_8, 4, 8);
//@ C17 c17_contract_change_bit_depth_5_8 quick default change_bit_depth::<5,8>: contract for every 5-bit x
cbd_contract_harness!(c17_contract_change_bit_depth_5_8, 5, 8);
//@ C17 c17_contract_change_bit_depth_6_8 quick default change_bit_depth::<6,8>: contract for every 6-bit x
cbd_contract_harness!(c17_contract_change_bit_depth_6_8, 6, 8);
//@ C17 c17_contract_change_bit_depth_8_5 quick default change_bit_depth::<8,5>: contract (downsizing is a right shift) for every byte
cbd_contract_harness!(c17_contract_change_bit_depth_8_5, 8, 5);

//@ C17 c17_upsize_is_monotone_and_onto_ends quick default change_bit_depth::<N,8> maps 0 to 0 and the maximum to 255 (black stays black, white stays white) for N = 4, 5, 6
#[kani::proof]
fn c17_upsize_is_monotone_and_onto_ends() {
    assert!(change_bit_depth::<4, 8>(0) == 0 && change_bit_depth::<4, 8>(0xF) == 0xFF);
    assert!(change_bit_depth::<5, 8>(0) == 0 && change_bit_depth::<5, 8>(0x1F) == 0xFF);
    assert!(change_bit_depth::<6, 8>(0) == 0 && change_bit_depth::<6, 8>(0x3F) == 0xFF);
}

// ---------------------------------------------------------------------------------------
// per-pixel round trips, callers checked against the callee's *contract*

//@ C17 c17_rgb565 quick default RGB565: encode(decode(p)) == p for all 65 536 pixel values (change_bit_depth replaced by its proved contract)
#[kani::proof]
#[kani::stub_verified(change_bit_depth)]
fn c17_rgb565() {
    let p: u16 = kani::any();
    let c = Components::from(Rgb565(p));
    assert!(Rgb565::from(c).0 == p);
}
//@ C17 c17_argb4444 quick default ARGB4444: encode(decode(p)) == p for all 65 536 pixel values (change_bit_depth replaced by its proved contract)
#[kani::proof]
#[kani::stub_verified(change_bit_depth)]
fn c17_argb4444() {
    let p: u16 = kani::any();
    let c = Components::from(Argb4444(p));
    assert!(Argb4444::from(c).0 == p);
}
//@ C17 c17_rgb565_body quick default RGB565 round trip again with the real body of change_bit_depth (no stub), and decode places blue/green/red in the documented bit fields
#[kani::proof]
fn c17_rgb565_body() {
    let p: u16 = kani::any();
    let c = Components::from(Rgb565(p));
    assert!(Rgb565::from(c).0 == p);
    // 0bRRRRR_GGGGGG_BBBBB: the top bits of each 8-bit channel are the stored field
    assert!((c.red >> 3) as u16 == p >> 11);
    assert!((c.green >> 2) as u16 == (p >> 5) & 0x3F);
    assert!((c.blue >> 3) as u16 == p & 0x1F);
}
//@ C17 c17_argb4444_body quick default ARGB4444 round trip with the real body, and decode places alpha/red/green/blue in the documented nibbles (0xARGB)
#[kani::proof]
fn c17_argb4444_body() {
    let p: u16 = kani::any();
    let c = Components::from(Argb4444(p));
    assert!(Argb4444::from(c).0 == p);
    assert!((c.alpha >> 4) as u16 == p >> 12);
    assert!((c.red >> 4) as u16 == (p >> 8) & 0xF);
    assert!((c.green >> 4) as u16 == (p >> 4) & 0xF);
    assert!((c.blue >> 4) as u16 == p & 0xF);
}
//@ C17 c17_gray8 quick float GRAY8: encode(decode(v)) == v for all 256 values (through the f32 luminosity formula, bit-precise)
#[kani::proof]
fn c17_gray8() {
    let v: u8 = kani::any();
    let c = Components::from(Gray8(v));
    assert!(Gray8::from(c).0 == v);
}
//@ C17 c17_argb8888 quick default ARGB8888: encode(decode(p)) == p for all 2^32 values, and the channels are the bytes of 0xAARRGGBB
#[kani::proof]
fn c17_argb8888() {
    let p: u32 = kani::any();
    let c = Components::from(Argb8888(p));
    assert!(Argb8888::from(c).0 == p);
    assert!(c.alpha as u32 == p >> 24 && c.red as u32 == (p >> 16) & 0xFF);
    assert!(c.green as u32 == (p >> 8) & 0xFF && c.blue as u32 == p & 0xFF);
}

// ---------------------------------------------------------------------------------------
// buffer level: the real Rc<Vec<u8>> / Cursor path used by extraction and by compilation

fn bytes_round_trip(fmt: ColorFormat, src: Vec<u8>) {
    let n_pixels = src.len() / fmt.bytes_per_pixel();
    let original = Rc::new(src);
    let argb = fmt.transcode_to_argb_8888(&original);
    assert!(argb.len() == 4 * n_pixels);
    let back = fmt.transcode_from_argb_8888(&argb);
    assert!(back.len() == original.len());
    let mut i = 0;
    while i < original.len() {
        assert!(back[i] == original[i]);
        i += 1;
    }
}
//@ C17 c17_bytes_rgb565 quick default,bounded BOUNDED 2 pixels: RGB565 texture bytes -> ARGB8888 buffer -> texture bytes is the identity and lengths scale by bytes_per_pixel (little-endian byte order included)
#[kani::proof]
#[kani::unwind(6)]
fn c17_bytes_rgb565() {
    let b: [u8; 4] = kani::any();
    bytes_round_trip(ColorFormat::Rgb565, b.to_vec());
}
//@ C17 c17_bytes_argb4444 quick default,bounded BOUNDED 2 pixels: ARGB4444 texture bytes round trip through the ARGB8888 buffer
#[kani::proof]
#[kani::unwind(6)]
fn c17_bytes_argb4444() {
    let b: [u8; 4] = kani::any();
    bytes_round_trip(ColorFormat::Argb4444, b.to_vec());
}
//@ C17 c17_bytes_gray8 quick float,bounded BOUNDED 2 pixels: GRAY8 texture bytes round trip through the ARGB8888 buffer
#[kani::proof]
#[kani::unwind(6)]
fn c17_bytes_gray8() {
    let b: [u8; 2] = kani::any();
    bytes_round_trip(ColorFormat::Gray8, b.to_vec());
}
//@ C17 c17_bytes_argb8888 quick default,bounded BOUNDED 1 pixel: ARGB8888 buffers are passed through unchanged in both directions
#[kani::proof]
#[kani::unwind(6)]
fn c17_bytes_argb8888() {
    let b: [u8; 4] = kani::any();
    bytes_round_trip(ColorFormat::Argb8888, b.to_vec());
}

//@ C17 c17_format_numbers quick default format numbers 1/3/5/7 select ARGB8888/RGB565/ARGB4444/GRAY8 with 4/2/2/1 bytes per pixel; every other number is rejected
#[kani::proof]
fn c17_format_numbers() {
    let n: u32 = kani::any();
    match ColorFormat::from_format_num(n) {
        Some(f) => {
            assert!(f as u32 == n);
            let bpp = f.bytes_per_pixel();
            assert!(match n { 1 => bpp == 4, 3 => bpp == 2, 5 => bpp == 2, 7 => bpp == 1, _ => false });
            assert!(f.dummy_fill_color_bytes().len() == bpp);
        },
        None => assert!(n != 1 && n != 3 && n != 5 && n != 7),
    }
}

#[cfg(kani)]
#[path = "/verif/.cache/playback/color.rs"]
mod playback;
