"""Static description of what each claimed property puts under contract and what it leaves out.
Copied into every evidence file so that a reader sees the scope next to the counts."""

COMMON_TRUSTED_BASE = [
    "rustc (Kani's pinned toolchain), kani-compiler 0.68.0, CBMC 6.11.0 + CaDiCaL (or the solver named per obligation)",
    "Kani's models of std (Vec, Box, Cursor, allocator never fails)",
    "Verus 0.2026.09.13 + Z3 for the obligations whose backend is verus/z3; vstd specifications of core/alloc functions",
    "cfg(kani)-only modules do not change ordinary builds (checked by MANIFEST.hooks.baseline_off_cmd)",
    "the harness-side spec functions in /verif/contracts/kani/*.rs are read as the meaning of the property text",
]

PROPS = {
    "C11": {
        "functions_under_contract": [
            "ast::BinOpKind::const_eval (src/passes/const_simplify.rs)",
            "ast::UnOpKind::const_eval (src/passes/const_simplify.rs)",
            "handle_shift_rhs (src/passes/const_simplify.rs) - Kani function contract, proved, then used via stub_verified",
            "ScalarValue::read_as_int / read_as_float / cast_by_ty_sigil (src/value.rs)",
            "ast::BinOpKind::negate_comparison, ast::AssignOpKind::corresponding_binop (src/ast/mod.rs)",
            "From<ScalarValue> for ast::Expr, ast::Expr::{to_const, as_const_int, as_const_float}: literal <-> value round trip",
        ],
        "unverified": [
            "the two tree walkers that call const_eval (const_simplify::Visitor::visit_expr, context::consts::_const_eval): "
            "post-order folding, ternary selection, const definition chains, cycle detection",
            "that AstVm (the run-time oracle of the test-suite) models the game engines",
            "float `%`, sqrt and sin/cos/tan/asin/acos/atan (CBMC over-approximates them: a sqrt obligation produced a counterexample that passes natively)",
        ],
        "bounds": [
            "int / and %: the full quotient/remainder equation is discharged only for |a|,|b| <= 4096 plus MIN/-1 "
            "(bounded stand-in: CBMC's divider encoding makes the full-domain uniqueness proof intractable; the thorough tier adds "
            "all a with |b| <= 16, and |a|,|b| <= 65536); "
            "sign rules, |r| < |b| and the zero-divisor rule are full-domain proofs",
        ],
        "trusted_base": [],
        "assumptions": [
            "machine arithmetic is bit-precise in CBMC (no mathematical-integer abstraction); float obligations run with "
            "--no-overflow-checks because Kani's NaN check flags legal IEEE results",
        ],
    },
    "C17": {
        "functions_under_contract": [
            "change_bit_depth::<IN,OUT> (src/image/color.rs) - Kani function contract on the real function, proved for <4,8> <5,8> <6,8> <8,5>, "
            "then used via stub_verified by the pixel round trips; also a Verus unit on the verbatim text",
            "From<Rgb565|Argb4444|Gray8|Argb8888> for Components and From<Components> for each (src/image/color.rs)",
            "ColorBytes::{decode,encode} for the four formats; ColorFormat::{transcode_to_argb_8888, transcode_from_argb_8888, "
            "bytes_per_pixel, from_format_num, dummy_fill_color_bytes}",
        ],
        "unverified": [
            "offset padding / cropping of extracted images and PNG encoding/decoding (src/image/mod.rs, uses the `image` crate)",
            "image-source precedence ('last one wins') and per-path queues (src/formats/anm/mod.rs, IndexMaps)",
            "that the texture buffer handed to the codecs has the length the header announces",
        ],
        "bounds": [
            "pixel level: none (all 2^16 / 2^8 / 2^32 pixel values, symbolic)",
            "buffer level (c17_bytes_*): buffers of 1-2 pixels; labelled bounded, not counted as proved",
        ],
        "trusted_base": ["byteorder's little-endian read/write of u16/u32 (executed by CBMC, not stubbed)"],
        "assumptions": ["the Gray8 obligations run with --no-overflow-checks (f32 arithmetic; CBMC is bit-precise there)"],
    },
    "C14": {
        "functions_under_contract": [
            "BitSet32::{new, from_mask, from_bit, len, is_empty, mask, contains, with_bit, without_bit, first, last, insert, remove, "
            "set_bit, with_upper_bound, complement} and the BitAnd/BitOr/BitXor/Not impls (src/bitset.rs)",
            "IntoIter32::next, ExactSizeIterator::len (src/bitset.rs)",
            "DiffSwitchMeta::{new, update, explicit_case_bitmasks, switch_from_explicit_cases} (src/diff_switch_utils.rs)",
            "select_diff_switch_case (src/diff_switch_utils.rs)",
            "DiffFlagDefs::{difficulty_bits, aux_bits} (src/context/diff_flags.rs): the flag partition; mask_to_diff_label / "
            "parse_diff_string only for the two masks whose label contains no flag name (0xFF and the default-on set)",
        ],
        "unverified": [
            "FIRST SENTENCE OF THE PROPERTY (label string <-> mask under every flag-definition set): DiffFlagDefs is two BTreeMaps "
            "(src/context/diff_flags.rs); CBMC gave no verdict in 600 s and Verus cannot take String/chars/BTreeMap code",
            "elaborate_diff_switches / select_diff_for_lower_args (src/llir/lower.rs) and recognize_diff_switch "
            "(src/llir/raise/recognize.rs): the callers that combine the helpers, including 'aux bits are left as the label set them' "
            "(measured: a harness on elaborate_diff_switches with one 2-position switch gives no verdict in 600 s - recursive LowerArg "
            "clone/drop with heap-stored enum discriminants)",
            "difficulty labels on blocks (passes/desugar_blocks.rs)",
            "explicit_difficulty_cases (src/diff_switch_utils.rs): CBMC exhausts 32 GB even for n <= 3",
            "validate_difficulty (equal switch lengths, at most 8 cases): assumed as the precondition n <= 8",
        ],
        "bounds": [
            "n <= 8 difficulty positions and 8-bit masks: the structural maximum (mask byte; validate_difficulty rejects more), "
            "so the unwind(10) harnesses are complete with unwinding assertions on",
            "IntoIter32::next excludes the lone member 31 at index 0 (latent shift-by-32, DESIGN.md F6; no caller can reach it)",
        ],
        "trusted_base": [],
        "assumptions": [],
    },
    "C13": {
        "functions_under_contract": [
            "TimeAndDifficultyHelper::{new, enter_root_block, enter_block, exit_block, enter_stmt, exit_stmt, time, difficulty_mask, "
            "visit_stmt_shallow} (src/passes/semantics/time_and_difficulty.rs)",
            "LabelEmitter::{new, emit_offset_and_time_labels_with} (src/llir/raise/late.rs)",
            "InstrFormat::{write_instr, read_instr} of all nine formats, for the time field only (c13_*_time_stored; every other "
            "header field is C03's)",
        ],
        "unverified": [
            "the Visitor that drives the helper over nested blocks and records TimeAndDifficulty per NodeId (IdMap = HashMap)",
            "that lowering copies stmt_data.time into RawInstr.time unchanged (src/llir/lower.rs)",
            "`+N:` where N is a non-literal constant expression: const simplification is assumed to have produced the literal (C11)",
            "generate_label_at_offset (src/llir/raise/early.rs, BTreeSet/BTreeMap), which establishes the precondition "
            "'a label's stated time is the previous or the new time'",
            "statement kinds that need a CompilerContext to build (calls, assignments, loops): the frame obligation covers "
            "NoInstruction, free block, return, interrupt label",
        ],
        "bounds": ["none in the times (all of i32 x i32); emitted statements per step <= 3 (unwind 4, unwinding assertions on)"],
        "trusted_base": [],
        "assumptions": ["every ast::Stmt built by a harness is mem::forget-ed (drop glue of the recursive AST diverges in CBMC)"],
    },
    "C15": {
        "functions_under_contract": [
            "AcceleratingByteMask::{next, constant} (src/llir/abi.rs)",
            "Encoded::{apply_xor_mask, null_pad, trim_first_nul, len, encode_fixed_size} (src/io.rs; encode_fixed_size with the "
            "transcoder replaced by a stub returning arbitrary bytes)",
            "BinWrite::write_cstring, BinRead::read_cstring_blockwise on an in-memory Cursor (src/io.rs)",
            "std write_string_128 / read_string_128 (BinRead::read_cstring_exact) - the 128-byte name fields of STD files, transcoder "
            "stubbed in both directions",
            "mission write_mission_text_lines / read_mission_text_lines + ZunMissionCipher::bytes_for_line (ciphered 64-byte lines)",
        ],
        "unverified": [
            "Shift-JIS transcoding: Encoded::encode / decode / encode_fixed_size call the external crate encoding_rs (assumed correct; "
            "'unambiguously representable' in the property is a statement about that crate's tables)",
            "the order in which encode_args / decode_args call the leaves (NUL, furigana append, pad, mask) and the furigana state: "
            "inside functions neither back end can reach (C12). A change that reorders those calls is NOT detected; a change inside a leaf is",
            "Pascal length prefix; mission.rs beyond its first text line (line numbers > 0 change only the stream's velocity)",
            "diagnostics: that 'unencodable' and 'does not fit' are reported (error paths reach the diagnostics renderer)",
        ],
        "bounds": [
            "byte strings of length <= 6 (<= 4 in the pipeline lemmas), block sizes <= 8 (<= 4 in the pipeline lemmas), every mask "
            "triple: bounded stand-ins for the Kani harnesses; null_pad and the mask step are also proved unboundedly by Verus",
        ],
        "trusted_base": ["stubs: alloc::fmt::format -> String::new(), ErrorReported::new without Backtrace::capture (warning text is not "
                         "part of any obligation); the real RootEmitter with a no-op sink receives the warnings"],
        "assumptions": [],
    },
    "C09": {
        "functions_under_contract": [
            "ast::Expr::binop_ty_from_arg_ty, ast::Expr::unop_ty_from_arg_ty (the context-free faces of _binop_ty / _unop_ty, "
            "src/passes/type_check.rs)",
            "ast::BinOpKind::{class, is_comparison}, ast::UnOpKind::as_ty_sigil (src/ast/mod.rs)",
            "ast::BinOpKind::const_eval, ast::UnOpKind::const_eval, ScalarValue::{cast_by_ty_sigil, ty} as the evaluation side",
        ],
        "unverified": [
            "FIRST SENTENCE OF THE PROPERTY (accepted exactly when well-typed, wherever the construct sits): type_check::Visitor "
            "and ExprTypeChecker (binop_check/unop_check/require_int..., call arity and parameter types, assignment/declaration "
            "compatibility, sigil rules, int-only conditions and counters) need a CompilerContext and emit diagnostics; neither "
            "back end can execute them",
            "types of non-operator expressions (variables, calls, ternaries, diff switches): Expr::compute_ty over CompilerContext",
            "float % and sin..atan are only typed (their values are over-approximated by CBMC)",
        ],
        "bounds": ["none: finite in operators (19 binary, 14 unary) x {int,float}, full domain in operand values, loop-free"],
        "trusted_base": [],
        "assumptions": ["operand type combinations are restricted to those the documented operator classes admit; what the "
                        "evaluator does on ill-typed operands (today: panic) is not constrained"],
    },
    "C03": {
        "functions_under_contract": [
            "InstrFormat::{write_instr, read_instr, write_terminal_instr, instr_size, instr_header_size} for MsgHooks (src/formats/msg.rs), "
            "InstrFormat06 and InstrFormat07 (src/formats/anm/read_write.rs), StdHooks06 and StdHooks10 (src/formats/std.rs), "
            "OldeEclHooks{Th06,Th07}, TimelineFormat06, TimelineFormat08 (src/formats/ecl/ecl_06.rs), ModernEclHooks (src/formats/ecl/ecl_10.rs)",
            "llir::fit_instr_field, llir::forbid_reserved_opcode (src/llir/mod.rs) - guards with their own contract (c03_guard_*)",
            "LanguageHooks::{encode_label, decode_label}: default (absolute), StdHooks06 (index = offset/20), OldeEclHooks and "
            "ModernEclHooks (signed relative)",
            "anm FileFormat::{write_header, read_header} (TH06 and TH07+ entry header layouts), fit_header_field, write_sprite / read_sprite, "
            "write_texture / read_texture (THTX header) "
            "(src/formats/anm/read_write.rs)",
            "std write_quad / read_quad / write_terminal_quad (src/formats/std.rs)",
            "BinWriter / BinReader primitive reads and writes on an in-memory Cursor (executed, not stubbed)",
        ],
        "unverified": [
            "file-level tables, counts, offsets and strings beyond the leaves listed above: anm write_entry (sprite/script offset tables, "
            "path offsets patched in by seeks), std write_std / object and instance tables (IndexMap), msg script table, ecl_06 sub/timeline "
            "tables, ecl_10 string lists, mission.rs - written through IndexMaps and seeks CBMC cannot get through",
            "argument values inside the blob (encode_args widths, C12): the blob is treated as opaque bytes",
            "llir::write_instrs / read_instrs loops over a script and the end-offset logic for MaybeTerminal",
            "that a rejected value is reported with a rendered diagnostic (the error path reaches the renderer)",
        ],
        "bounds": [
            "round trips: argument blobs of concrete length 4 (quick) and 0, 12 (thorough) with symbolic contents - a symbolic length "
            "makes the reader's EOF path reachable and CBMC diverges; every header field is fully symbolic",
            "size-field obligations: blob length fully symbolic 0..=70000 (above every field width), contents zero",
        ],
        "trusted_base": ["stubs: alloc::fmt::format, ErrorReported::new (no backtrace), io::nice_display_path"],
        "assumptions": ["fields a format does not store are fixed to RawInstr::DEFAULTS in the input (the source cannot request them)"],
    },
    "C16": {
        "functions_under_contract": [
            "InstrFormat::read_instr of MsgHooks, InstrFormat06, InstrFormat07, StdHooks06, StdHooks10, OldeEclHooks, TimelineFormat06, "
            "TimelineFormat08, ModernEclHooks: panic-freedom on arbitrary header bytes",
            "LanguageHooks::decode_label (default, StdHooks06, OldeEclHooks, ModernEclHooks): panic-freedom on arbitrary jump arguments",
            "std read_quad, anm FileFormat::read_header (both layouts), anm read_texture, read_cstring_blockwise: panic-freedom on arbitrary bytes",
        ],
        "unverified": [
            "EVERYTHING ELSE the property covers: file-level readers (read_anm / read_entry / read_texture, read_std, read_msg, "
            "read_olde_ecl, ecl_10, mission), decompilation (raise passes, block recovery, formatter) and image extraction - they go through "
            "IndexMaps, seeks, io::Error paths and the `image` crate",
            "EOF inside an instruction (the io::Error path) and that an error is rendered 'naming the file'",
            "termination and memory use of the whole read (hang / out of memory)",
            "observation outside the claimed set: produce_image_from_entry (anm/image_io.rs) panics on a texture whose data size does not "
            "match width*height*bpp (`assert_eq!` in ColorBytes::decode, `.expect(\"size error?!\")`); read_texture only warns",
            "paths that CONTINUE after a warning inside read_instr (ecl_06: two warnings, ecl_10: padding-byte warning) and inside the ANM "
            "read_header (`nonzero .. will be lost`): those harnesses use the cutting emitter, which ends a path at its first diagnostic; "
            "that is exact where the diagnostic is the error return and leaves the code after a warning unchecked. read_quad and read_texture "
            "use the real emitter and are checked to their return (changed after seeded change C16-std-quad-size-lenient)",
            "observation outside the claimed set (genuine defect on the pinned tree, reproduced natively): read_olde_ecl on a TH07/08/095 file "
            "whose timeline table starts with a null entry panics (`num_timelines -= 1` underflow, ecl_06.rs); a harness over the 68-byte "
            "header was written and gave no verdict in 600 s (IndexMap/Box<dyn> state), so no check reports it",
        ],
        "bounds": [
            "per obligation the buffer length and the value of the size field are concrete (values below, at and above the header size, "
            "and the sign-extension value 0xFFFF); every other byte of the header and of the arguments is symbolic",
        ],
        "trusted_base": ["stubs: alloc::fmt::format, ErrorReported::new (no backtrace), io::nice_display_path"],
        "assumptions": ["the buffer holds as many bytes as the size field announces (the EOF path is not exercised)"],
    },
}
