"""Per-property orchestration: run the obligations, decide, write evidence, report."""
import json
import os
import re
import time

import core
import kani_runner
import verus_runner
from propmeta import PROPS, COMMON_TRUSTED_BASE


def _tags(ob):
    return ob.group.split(",")


def _flag_group(ob):
    return _tags(ob)[0]


def _is_bounded(ob):
    return "bounded" in _tags(ob)


def list_obligations():
    obs = core.kani_registry() + verus_runner.registry()
    by = {}
    for o in obs:
        by.setdefault(o.prop, []).append(o)
    for p in sorted(by):
        print("%s: %d obligations" % (p, len(by[p])))
        for o in by[p]:
            print("   %-7s %-8s %-44s %s" % (o.backend, o.tier, o.name, o.desc[:100]))
    return 0


def setup(args):
    """Warm caches; run the vacuity canaries. Never decides a property."""
    t0 = time.time()
    os.makedirs(core.CACHE, exist_ok=True)
    os.makedirs(core.REPLAY_DIR, exist_ok=True)
    kani_runner.ensure_playback_placeholders()
    ok = True
    # 1. Verus canary (a false lemma must be rejected, a true one accepted)
    c = verus_runner.canary()
    print("verus canary: %s" % c)
    ok = ok and c.get("ok", False)
    # 2. Kani: build the crate once (warms /verif/.cache/kani) and run the Kani canaries
    res, info = kani_runner.run_harnesses(_kani_canaries(), 120, 2)
    cp, cf = res.get("canary_must_pass"), res.get("canary_must_fail")
    kok = bool(cp and cp.status == "success" and cf and cf.status == "failed")
    print("kani canaries: must_pass=%s must_fail=%s" % (cp.status if cp else None, cf.status if cf else None))
    if not kok:
        print(info.get("build_error") or "\n".join(info.get("raw_tail", [])))
    ok = ok and kok
    print("setup done in %.0fs" % (time.time() - t0))
    return 0 if ok else 2


def _kani_canaries():
    """Two harnesses in contracts/kani/common.rs: one must pass, one must FAIL."""
    class O:  # minimal obligation-like objects
        def __init__(self, name):
            self.name = name
            self.full_name = "verif_common::" + name
            self.group = "default"
            self.module = "common"
            self.solver = "cadical"
    return [O("canary_must_pass"), O("canary_must_fail")]


def check_property(prop, tier, args):
    t0 = time.time()
    if prop not in PROPS:
        print("property %s is not claimed by this machinery (see MANIFEST.json not_applicable)" % prop)
        return core.EXIT_UNDECIDED
    meta = PROPS[prop]
    seed = int(os.environ.get("VERIF_SEED", "0") or 0)

    kani_obs = core.select(core.kani_registry(), prop, tier)
    verus_obs = core.select(verus_runner.registry(), prop, tier)
    partial = False
    if args.only:
        only = set(args.only.split(","))
        kani_obs = [o for o in kani_obs if o.name in only]
        verus_obs = [o for o in verus_obs if o.name in only]
        partial = True
    if not kani_obs and not verus_obs:
        print("engine error: zero obligations registered for %s (vacuous check)" % prop)
        return core.EXIT_UNDECIDED

    harness_timeout = 600 if tier == "quick" else 1200
    if os.environ.get("VERIF_HARNESS_TIMEOUT"):      # debugging aid only
        harness_timeout = int(os.environ["VERIF_HARNESS_TIMEOUT"])
    per = []
    undecided = []
    failed = []

    # ---- Kani (with the two canaries riding along: vacuity guard on every run)
    kani_results = {}
    kinfo = {}
    if kani_obs:
        canaries = _kani_canaries()
        kani_results, kinfo = kani_runner.run_harnesses(kani_obs + canaries, harness_timeout, args.jobs)
        cp = kani_results.get("canary_must_pass")
        cf = kani_results.get("canary_must_fail")
        if not (cp and cp.status == "success" and cf and cf.status == "failed"):
            print("engine error: Kani canaries did not behave (must_pass=%s must_fail=%s); build/tool problem"
                  % (cp.status if cp else None, cf.status if cf else None))
            if "build_error" in kinfo:
                print(kinfo["build_error"])
            else:
                print("\n".join(kinfo.get("raw_tail", [])))
            _write_evidence(prop, tier, seed, meta, [], kinfo, {}, time.time() - t0, 0,
                            note="UNDECIDED: canaries failed", partial=True)
            return core.EXIT_UNDECIDED
    for o in kani_obs:
        r = kani_results[o.name]
        entry = {"name": o.name, "backend": "kani/cbmc", "kind": "bounded" if _is_bounded(o) else "proof",
                 "description": o.desc, "contract_file": os.path.relpath(o.source, core.VERIF)}
        entry.update(r.to_json())
        entry["solver"] = r.solver
        per.append(entry)
        if r.status == "success":
            if r.checks == 0:
                undecided.append((o, "zero checks generated (vacuous)"))
            elif r.covers is not None and r.covers[0] != r.covers[1]:
                undecided.append((o, "cover unsatisfied %d/%d: a precondition excludes every input" % r.covers))
        elif r.status == "failed":
            real = [fc for fc in r.failed_checks if "unwinding assertion" not in fc.get("description", "")]
            if r.failed_checks and not real:
                # only loop-bound (unwinding) assertions failed: the harness bound is too small for this
                # code, which says nothing about the property. Undecided, never an alarm.
                entry["status"] = "unwind-bound-exceeded"
                undecided.append((o, "unwinding assertion failed (harness loop bound too small for this code)"))
            else:
                r.failed_checks = real or r.failed_checks
                failed.append((o, r))
        else:
            undecided.append((o, r.status))

    # ---- thorough tier: every SAT-backed obligation is re-decided by a second solver (kissat);
    # a disagreement between solvers is a tool problem -> undecided
    if tier == "thorough" and kani_obs and not os.environ.get("VERIF_NO_CROSSCHECK"):
        second = [o for o in kani_obs if getattr(o, "solver", "cadical") == "cadical"
                  and kani_results[o.name].status == "success"]
        if second:
            res2, info2 = kani_runner.run_harnesses(second, harness_timeout, args.jobs, extra=["--solver", "kissat"])
            kinfo.setdefault("invocations", []).extend(info2.get("invocations", []))
            byname = {e["name"]: e for e in per}
            for o in second:
                r2 = res2[o.name]
                byname[o.name]["cross_check"] = {"solver": "kissat", "status": r2.status, "seconds": r2.seconds}
                if r2.status == "failed":
                    undecided.append((o, "solver disagreement: cadical proves it, kissat refutes it"))

    # ---- Verus
    vinfo = {}
    if verus_obs:
        vres, vinfo = verus_runner.run_units(verus_obs, tier)
        for o in verus_obs:
            r = vres[o.name]
            entry = {"name": o.name, "backend": "verus/z3", "kind": "proof", "description": o.desc,
                     "contract_file": os.path.relpath(o.source, core.VERIF)}
            entry.update(r)
            per.append(entry)
            twin = kani_results.get(r.get("kani_twin") or "")
            if r["status"] == "success":
                pass
            elif r.get("kani_twin_complete") and twin is not None and twin.status == "success":
                # The Kani twin is a complete (loop-free, full-domain) proof of the same postcondition on
                # the same function and it passed on this tree: the obligation is discharged by the twin;
                # Verus' failure/unsupported construct is proof brittleness after an edit, not a verdict.
                entry["status"] = "success"
                entry["discharged_by"] = "complete Kani twin %s (Verus: %s)" % (r.get("kani_twin"), r["status"])
                entry["backend"] = "kani/cbmc (twin of a Verus unit)"
            elif r["status"] == "failed" and twin is not None and twin.status == "failed":
                # Verus gives no counterexample; its Kani twin fails too and is reported (with replay) as
                # its own obligation. The Verus obligation is listed with it.
                failed.append((o, r))
            elif r["status"] == "failed":
                # Verus could not re-establish the obligation and no Kani twin refutes it: a failed proof
                # is "undecided", not a violation (measured: a behaviour-preserving rewrite of null_pad's
                # ceiling division makes the arithmetic lemma miss; the bounded twin passes).
                undecided.append((o, "Verus proof did not go through and the Kani twin %s finds no counterexample"
                                  % (r.get("kani_twin") or "(none)")))
            else:
                undecided.append((o, r["status"]))

    # ---- decide
    findings = [f for f in core.load_known_findings() if f["property"] == prop]
    violations = []
    known = []
    for o, r in failed:
        fcs = r.failed_checks if hasattr(r, "failed_checks") else r.get("failed_checks", [])
        mine = [f for f in findings if f["obligation"] == o.name]
        covered = bool(fcs) and bool(mine) and all(
            any(f["check"] in fc.get("description", "") for f in mine) for fc in fcs)
        if covered:
            known.append((o, [f for f in mine if any(f["check"] in fc.get("description", "") for fc in fcs)]))
        else:
            violations.append((o, r))

    for o, fs in known:
        for f in fs:
            print("KNOWN-FINDING: property=%s obligation=%s %s" % (prop, o.name, f["text"]))

    replay_paths = []
    confirmed = []
    for o, r in violations:
        path, suffix, spurious = _report_violation(prop, o, r, tier)
        if spurious:
            # the verifier's counterexample PASSES when replayed natively on the real code: the verdict
            # comes from an imprecision of the verifier's model (seen with CBMC's subnormal float
            # division), not from the code.  Undecided, never an alarm.
            undecided.append((o, "spurious counterexample: passes natively (%s)" % path))
            continue
        confirmed.append((o, r))
        replay_paths.append(path)
        print("VIOLATION property=%s replay=%s%s" % (prop, path, suffix))
    violations = confirmed

    for o, why in undecided:
        print("UNDECIDED obligation=%s reason=%s" % (o.name, why))

    wall = time.time() - t0
    _write_evidence(prop, tier, seed, meta, per, kinfo, vinfo, wall, len(violations),
                    known=[o.name for o, _ in known], partial=partial,
                    undecided=[(o.name, w) for o, w in undecided])
    n_ok = sum(1 for e in per if e["status"] == "success")
    print("%s tier=%s: %d obligations, %d discharged, %d violated, %d known-finding, %d undecided, %.0fs"
          % (prop, tier, len(per), n_ok, len(violations), len(known), len(undecided), wall))
    if violations:
        return core.EXIT_VIOLATION
    if undecided:
        return core.EXIT_UNDECIDED
    return core.EXIT_OK


def _report_violation(prop, o, r, tier):
    os.makedirs(core.REPLAY_DIR, exist_ok=True)
    path = os.path.join(core.REPLAY_DIR, "%s-%s.json" % (prop, o.name))
    doc = {"property": prop, "obligation": o.name, "description": o.desc, "backend": o.backend,
           "contract_file": o.source, "repo": core.repo_state(), "tier": tier}
    suffix = " no-failing-input-found"
    if os.environ.get("VERIF_NO_REPLAY"):
        # debugging aid (self-test of the obligations): report the verifier's verdict only
        doc["failed_checks"] = r.failed_checks if hasattr(r, "failed_checks") else r.get("failed_checks", [])
        doc["note"] = "VERIF_NO_REPLAY set: counterexample extraction and native replay skipped"
    elif o.backend == "kani":
        doc["failed_checks"] = r.failed_checks
        doc["verifier_output"] = r.raw[-6000:]
        test_src, raw = kani_runner.concrete_playback(o)
        if test_src:
            doc["counterexample_test"] = test_src
            doc["module"] = o.module
            doc["flag_group"] = o.group
            nat = kani_runner.native_replay(o, test_src)
            doc["native_replay"] = nat
            if nat.get("reproduced_on_real_code"):
                suffix = ""
        else:
            doc["counterexample_test"] = None
            doc["playback_output_tail"] = "\n".join(raw.splitlines()[-40:])
    else:
        doc["failed_checks"] = r.get("failed_checks", [])
        doc["verifier_output"] = r.get("raw", "")[-6000:]
        # Verus gives no counterexample: the failing Kani twin is reported separately with its replay
        twin = r.get("kani_twin")
        doc["kani_twin"] = twin
        doc["note"] = "see the replay file of the Kani twin %s for the failing input" % twin
        if False:
            tw = [x for x in core.kani_registry() if x.name == twin]
            if tw:
                res, _ = kani_runner.run_harnesses(tw, 300, 1)
                tr = res[twin]
                doc["kani_twin_status"] = tr.status
                if tr.status == "success" and r.get("kani_twin_complete"):
                    # the twin is a complete (loop-free, full-domain) proof of the same postcondition on
                    # the same function: Verus' failure is proof brittleness, not a violation
                    doc["native_replay"] = {"passed_natively": True, "reason": "complete Kani twin proves the obligation"}
                if tr.status == "failed":
                    test_src, raw = kani_runner.concrete_playback(tw[0])
                    if test_src:
                        doc["counterexample_test"] = test_src
                        doc["module"] = tw[0].module
                        doc["flag_group"] = tw[0].group
                        nat = kani_runner.native_replay(tw[0], test_src)
                        doc["native_replay"] = nat
                        if nat.get("reproduced_on_real_code"):
                            suffix = ""
    doc["no_failing_input_found"] = bool(suffix)
    nat = doc.get("native_replay") or {}
    spurious = bool(nat.get("passed_natively"))
    doc["spurious"] = spurious
    doc["full_name"] = getattr(o, "full_name", o.name)
    with open(path, "w") as f:
        json.dump(doc, f, indent=1)
        f.write("\n")
    return path, suffix, spurious


def replay(prop, path):
    """Re-run a recorded counterexample against /repo's current working tree.
    exit 1 = still fails on the real code; exit 0 = passes now; exit 2 = nothing to replay."""
    doc = json.load(open(path))
    if not doc.get("counterexample_test"):
        print("replay file carries no failing input (obligation=%s); verifier output:" % doc.get("obligation"))
        print(doc.get("verifier_output", "")[-3000:])
        return core.EXIT_UNDECIDED

    class O:
        pass
    o = O()
    o.name = doc["obligation"]
    o.full_name = doc.get("full_name", o.name)
    o.module = doc["module"]
    o.group = doc.get("flag_group", "default")
    nat = kani_runner.native_replay(o, doc["counterexample_test"])
    print(json.dumps(nat, indent=1))
    if nat.get("reproduced_on_real_code"):
        print("VIOLATION property=%s replay=%s" % (prop, path))
        return core.EXIT_VIOLATION
    if nat.get("passed_natively"):
        return core.EXIT_OK
    return core.EXIT_UNDECIDED


def _write_evidence(prop, tier, seed, meta, per, kinfo, vinfo, wall, n_viol, known=(), partial=False,
                    undecided=(), note=None):
    proof = [e for e in per if e["kind"] == "proof" and e["name"] not in known]
    bounded = [e for e in per if e["kind"] == "bounded" and e["name"] not in known]
    discharged = sum(1 for e in proof if e["status"] == "success")
    contract_files = sorted(set(e["contract_file"] for e in per))
    assumptions = core.scan_assumptions([os.path.join(core.VERIF, f) for f in contract_files]
                                        + [os.path.join(core.KANI_CONTRACTS, "common.rs")])
    solver_s = sum((e.get("seconds") or 0) for e in per)
    samples = []
    for e in per[:3]:
        samples.append({"obligation": e["name"], "backend": e["backend"], "statement": e["description"],
                        "status": e["status"], "checks": e.get("checks"), "seconds": e.get("seconds")})
    cov = {
        "obligations": len(proof),
        "discharged": discharged,
        "checker_cmd": ("cd /repo && CARGO_NET_OFFLINE=true cargo kani --lib -Z function-contracts -Z stubbing "
                        "-Z unstable-options --harness-timeout <t> --output-format terse -j <n> "
                        "--target-dir /verif/.cache/kani --harness <each obligation>"
                        + ("  ;  verus <extracted unit>.rs --output-json --time" if vinfo else "")),
        "trusted_base": COMMON_TRUSTED_BASE + meta.get("trusted_base", []),
        "functions_under_contract": meta.get("functions_under_contract", []),
        "per_obligation": per,
        "bounded_checks": len(bounded),
        "bounded_passed": sum(1 for e in bounded if e["status"] == "success"),
        "bounds": meta.get("bounds", []),
        "unverified": meta.get("unverified", []),
        "known_finding_obligations": list(known),
        "undecided": [list(u) for u in undecided],
        "solver_seconds_total": round(solver_s, 2),
        "backends": {"kani": kinfo.get("invocations", []), "verus": vinfo.get("invocations", [])},
        "extraction": vinfo.get("extraction", []),
        "extraction_drops": vinfo.get("drops", []),
        "samples": samples,
        "exhaustive": False,
        "repo": core.repo_state(),
        "partial_run": partial,
    }
    if note:
        cov["note"] = note
    doc = {"property_id": prop, "tier": tier, "seed": seed, "level": "proof", "coverage": cov,
           "assumptions": assumptions + meta.get("assumptions", []), "wall_s": round(wall, 1),
           "violations": n_viol}
    core.write_evidence(prop, doc)
