#!/bin/bash
# try_seed.sh <seed dir under /verif/seeded> <property> [<property>...]
# Applies the seeded change to /repo, runs the quick checks, and undoes the change straight afterwards.
SD=/verif/seeded/$1; shift
cd /repo || exit 2
git apply --check "$SD/patch.diff" || { echo "PATCH DOES NOT APPLY: $SD"; exit 2; }
git apply "$SD/patch.diff"
for p in "$@"; do
  echo "=== $(basename $SD) :: $p"
  ( cd /verif && ./check $p --tier quick > /tmp/try_seed_out.txt 2>&1; echo "exit=$?" >> /tmp/try_seed_out.txt )
  grep -v "^\[kani\]" /tmp/try_seed_out.txt | cut -c1-400
done
git -C /repo checkout -- .
