"""Shared pieces of the /verif engine: paths, obligation registry, known findings, evidence.

python3 standard library only.
"""
import fcntl
import glob
import hashlib
import json
import os
import re
import subprocess
import sys
import time

VERIF = "/verif"
REPO = "/repo"
CACHE = os.path.join(VERIF, ".cache")
KANI_TARGET = os.path.join(CACHE, "kani")
PLAYBACK_DIR = os.path.join(CACHE, "playback")
KANI_CONTRACTS = os.path.join(VERIF, "contracts", "kani")
VERUS_CONTRACTS = os.path.join(VERIF, "contracts", "verus")
EVIDENCE_DIR = os.path.join(VERIF, "evidence")
REPLAY_DIR = os.path.join(VERIF, "replays")
KNOWN_FINDINGS = os.path.join(VERIF, "known-findings.txt")

EXIT_OK = 0
EXIT_VIOLATION = 1
EXIT_UNDECIDED = 2

# ------------------------------------------------------------------------------------------
# registry:  //@ <property> <harness> <tier> <flag-group> <description>

REG_RE = re.compile(r"^//@\s+(C\d+)\s+(\w+)\s+(quick|thorough)\s+([\w,]+)\s+(.*\S)\s*$")


class Obligation:
    def __init__(self, prop, name, tier, group, desc, backend, source, module=None):
        self.prop = prop
        self.name = name
        self.tier = tier          # 'quick' = runs in both tiers; 'thorough' = thorough only
        self.group = group        # kani flag group ('default', 'float', ...) or 'verus'
        self.desc = desc
        self.backend = backend    # 'kani' | 'verus'
        self.source = source      # contract file
        self.module = module      # kani: module stem (playback file name)

    def __repr__(self):
        return "<%s %s %s %s>" % (self.prop, self.name, self.backend, self.tier)


def kani_registry():
    obs = []
    for path in sorted(glob.glob(os.path.join(KANI_CONTRACTS, "*.rs"))):
        stem = os.path.splitext(os.path.basename(path))[0]
        text = open(path, encoding="utf-8").read()
        mm = re.search(r"^//@module\s+(\S+)\s*$", text, re.M)
        modpath = mm.group(1) if mm else None
        for line in text.splitlines():
            m = REG_RE.match(line)
            if m:
                if not modpath:
                    raise SystemExit("engine error: %s has obligations but no //@module line" % path)
                o = Obligation(m.group(1), m.group(2), m.group(3), m.group(4), m.group(5), "kani", path, stem)
                o.full_name = modpath + "::" + o.name
                sm = re.search(r"#\[kani::solver\((\w+)\)\]\s*(?:#\[[^\]]*\]\s*)*fn\s+" + o.name + r"\s*\(", text)
                o.solver = sm.group(1) if sm else "cadical"
                obs.append(o)
    names = [o.name for o in obs]
    dup = set(n for n in names if names.count(n) > 1)
    if dup:
        raise SystemExit("engine error: duplicate obligation names: %s" % sorted(dup))
    return obs


def select(obs, prop, tier):
    out = [o for o in obs if o.prop == prop]
    if tier == "quick":
        out = [o for o in out if o.tier == "quick"]
    return out


# ------------------------------------------------------------------------------------------
# known findings (committed file, never written at run time)
#   finding: property=C03 obligation=<name> check="<substring of the failed check>" <free text>
#   fixed: property=C11 <commit> <what failed>

FINDING_RE = re.compile(r'^finding:\s+property=(C\d+)\s+obligation=(\w+)\s+check="([^"]*)"\s*(.*)$')


def load_known_findings():
    out = []
    if not os.path.exists(KNOWN_FINDINGS):
        return out
    for line in open(KNOWN_FINDINGS, encoding="utf-8"):
        line = line.strip()
        m = FINDING_RE.match(line)
        if m:
            out.append({"property": m.group(1), "obligation": m.group(2), "check": m.group(3),
                        "text": m.group(4), "line": line})
    return out


# ------------------------------------------------------------------------------------------
# assumption scan

ASSUME_PATTERNS = [
    (re.compile(r"kani::assume\s*\("), "kani::assume (documented precondition of the harness)"),
    (re.compile(r"kani::stub\s*\("), "kani::stub (body replaced by a harness-side stub: trusted)"),
    (re.compile(r"stub_verified\s*\("), "kani::stub_verified (callee replaced by its *proved* contract)"),
    (re.compile(r"\bassume\s*\("), None),  # verus assume
    (re.compile(r"\badmit\s*\("), "verus admit"),
    (re.compile(r"external_body"), "verus external_body"),
    (re.compile(r"assume_specification"), "verus assume_specification"),
    (re.compile(r"mem::forget|ManuallyDrop"), "drop glue skipped in harness (mem::forget/ManuallyDrop)"),
]


def scan_assumptions(paths):
    """Mechanical scan of the contract files for anything that is an assumption rather than a proof."""
    hits = []
    for path in paths:
        if not os.path.exists(path):
            continue
        for i, line in enumerate(open(path, encoding="utf-8"), 1):
            code = line.split("//", 1)[0] if not line.lstrip().startswith("//@") else ""
            if not code.strip():
                continue
            for rx, label in ASSUME_PATTERNS:
                if rx.search(code):
                    if label is None:
                        if "kani::assume" in code:
                            continue
                        label = "verus assume"
                    hits.append("%s:%d: %s: %s" % (os.path.relpath(path, VERIF), i, label, code.strip()[:160]))
                    break
    return hits


def sha256_text(t):
    return hashlib.sha256(t.encode("utf-8")).hexdigest()


# ------------------------------------------------------------------------------------------
# locking, running

class Lock:
    def __init__(self, name):
        os.makedirs(CACHE, exist_ok=True)
        self.path = os.path.join(CACHE, name + ".lock")
        self.f = None

    def __enter__(self):
        self.f = open(self.path, "w")
        fcntl.flock(self.f, fcntl.LOCK_EX)
        return self

    def __exit__(self, *a):
        fcntl.flock(self.f, fcntl.LOCK_UN)
        self.f.close()


def run(cmd, cwd=None, env=None, timeout=None):
    """Run a command, return (exit status or None on timeout, combined output, seconds)."""
    e = dict(os.environ)
    if env:
        e.update(env)
    t0 = time.time()
    try:
        p = subprocess.run(cmd, cwd=cwd, env=e, stdout=subprocess.PIPE, stderr=subprocess.STDOUT,
                           timeout=timeout)
        return p.returncode, p.stdout.decode("utf-8", "replace"), time.time() - t0
    except subprocess.TimeoutExpired as ex:
        out = ex.stdout.decode("utf-8", "replace") if ex.stdout else ""
        return None, out, time.time() - t0


def repo_state():
    """Identify the tree that was checked (HEAD + whether the working tree is dirty)."""
    rc, head, _ = run(["git", "-C", REPO, "rev-parse", "HEAD"])
    rc2, st, _ = run(["git", "-C", REPO, "status", "--porcelain", "--untracked-files=no"])
    return {"head": head.strip(), "dirty_tracked_files": [l[3:] for l in st.splitlines()]}


def write_evidence(prop, doc):
    os.makedirs(EVIDENCE_DIR, exist_ok=True)
    path = os.path.join(EVIDENCE_DIR, prop + ".json")
    tmp = path + ".tmp"
    with open(tmp, "w", encoding="utf-8") as f:
        json.dump(doc, f, indent=1, sort_keys=False)
        f.write("\n")
    os.replace(tmp, path)
    return path


def log(msg):
    sys.stderr.write(msg + "\n")
    sys.stderr.flush()
