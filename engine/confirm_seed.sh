#!/bin/bash
# confirm_seed.sh <worktree> <seed dir (with patch.diff and demo.sh)>
# Confirms, in a scratch worktree: the patch applies and builds, the demonstration fails with it and
# passes without it, and no test of the stable baseline fails with it.
set -u
WT=$1; SD=$2
DEMO=demo.sh; [ -f "$SD/run_demo.sh" ] && DEMO=run_demo.sh
cd "$WT" || exit 2
git checkout -q -- src build Cargo.toml 2>/dev/null
export RUST_BACKTRACE=0 CARGO_NET_OFFLINE=true
echo "== without change"; cargo build --offline -q 2>/dev/null; ( cd "$WT" && bash "$SD/$DEMO" >/tmp/demo_without.log 2>&1 ); echo "demo exit (want 0): $?"
echo "== with change"; git apply "$SD/patch.diff" || { echo "patch does not apply"; exit 2; }
cargo build --offline -q 2>/dev/null || { echo "build failed"; git checkout -q -- src; exit 2; }
( cd "$WT" && bash "$SD/$DEMO" >/tmp/demo_with.log 2>&1 ); echo "demo exit (want non-zero): $?"
rm -f target/nextest/pb/junit.xml
cargo nextest run --workspace --no-fail-fast --tool-config-file pb:/w/lib/nextest.toml --profile pb --test-threads 8 --offline >/tmp/seed_tests.log 2>&1
python3 - "$WT" <<'PY'
import json, sys
import xml.etree.ElementTree as ET
b = json.load(open('/root/.vp/BASELINE.json'))
t = ET.parse(sys.argv[1] + '/target/nextest/pb/junit.xml')
res = {}
for tc in t.iter('testcase'):
    res[tc.get('classname') + '::' + tc.get('name')] = not (tc.find('failure') is not None or tc.find('error') is not None)
bad = [s for s in b['stable_pass'] if not res.get(s, False)]
print("stable_pass: %d, passing with the change: %d" % (len(b['stable_pass']), len(b['stable_pass']) - len(bad)))
for s in bad[:10]: print("  FAILS:", s)
PY
git checkout -q -- src build Cargo.toml 2>/dev/null; rm -f tests/stderr-snapshots/*.snap.new
