#!/bin/bash
# selftest.sh [<prop>...]  - self-test of the obligations (not part of quick/thorough):
# applies /verif/selftest/<prop>.diff (several independent, deliberately property-breaking mutations)
# to /repo, runs the quick check without counterexample replay, lists the obligations that fail,
# and undoes the change.  HARMLESS.diff (behaviour-preserving edits) must leave every check green.
cd /repo || exit 2
for p in "$@"; do
  if [ "$p" = HARMLESS ]; then props="C09 C11 C13 C14 C15 C16 C17 C03"; else props=$p; fi
  git apply /verif/selftest/$p.diff || { echo "patch $p does not apply"; continue; }
  for q in $props; do
    echo "=== selftest $p :: check $q"
    ( cd /verif && VERIF_NO_REPLAY=1 ./check $q --tier quick 2>&1 | grep -v "^\[kani\]\|^KNOWN-FINDING" | sed 's/replay=.*\/\([^/]*\)\.json.*/\1/' )
  done
  git -C /repo checkout -- .
done
