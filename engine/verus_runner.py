"""Back end B: Verus on functions extracted mechanically (on every run) from /repo's working tree."""
import glob
import json
import os
import re
import time

import core
import verus_extract
from core import Obligation, VERUS_CONTRACTS, CACHE, run

VERUS_OUT = os.path.join(CACHE, "verus")


def _units():
    return sorted(glob.glob(os.path.join(VERUS_CONTRACTS, "*.rs.tmpl")))


def _unit_name(path):
    return os.path.basename(path)[:-len(".rs.tmpl")]


def registry():
    obs = []
    for path in _units():
        unit = _unit_name(path)
        for prop, tier, fn, desc, twin, complete, impl_header in verus_extract.parse_template_registry(path):
            o = Obligation(prop, "v_%s_%s" % (unit, fn), tier, "verus", desc, "verus", path, unit)
            o.fn = fn
            o.twin = twin
            o.twin_complete = complete
            o.impl_header = impl_header
            obs.append(o)
    return obs


def _verus(path, rlimit=None, extra=None):
    cmd = ["verus", path, "--output-json", "--time", "--no-cheating"]
    if rlimit:
        cmd += ["--rlimit", str(rlimit)]
    if extra:
        cmd += extra
    # stdout carries the JSON, stderr the diagnostics; keep them apart
    import subprocess
    t0 = time.time()
    try:
        p = subprocess.run(cmd, cwd=os.path.dirname(path), stdout=subprocess.PIPE, stderr=subprocess.PIPE, timeout=900)
    except subprocess.TimeoutExpired:
        return None, {}, "timeout", time.time() - t0
    out = p.stdout.decode("utf-8", "replace")
    err = p.stderr.decode("utf-8", "replace")
    try:
        doc = json.loads(out)
    except Exception:
        doc = {}
    return p.returncode, doc, err, time.time() - t0


def _breakdown(doc):
    fns = {}
    smt = doc.get("times-ms", {}).get("smt", {})
    for mod in smt.get("smt-run-module-times", []):
        for f in mod.get("function-breakdown", []):
            fns[f["function"]] = f
    return fns


def _errors_by_line(err):
    """[(line, message)] from rustc-style diagnostics."""
    out = []
    cur = None
    for l in err.splitlines():
        m = re.match(r"^(error|warning)(\[[^\]]*\])?: (.*)$", l)
        if m:
            cur = (m.group(1), m.group(3))
            continue
        m = re.match(r"^\s*--> [^:]+:(\d+):(\d+)", l)
        if m and cur:
            out.append((int(m.group(1)), cur[0], cur[1]))
            cur = None
    return out


VERIFICATION_FAILURE_WORDS = ("postcondition not satisfied", "precondition not satisfied", "assertion failed",
                              "invariant not satisfied", "possible arithmetic underflow/overflow",
                              "possible bit shift underflow/overflow", "possible division by zero",
                              "decreases not satisfied", "recommendation not met", "loop invariant",
                              "unreachable", "failed this", "cannot prove")


def run_units(obligations, tier):
    """Extract + verify every unit that has a selected obligation.
    Returns ({obligation name: result dict}, info)."""
    os.makedirs(VERUS_OUT, exist_ok=True)
    results = {}
    info = {"invocations": [], "extraction": [], "drops": [
        "D1 attributes, doc comments and visibility qualifiers in front of an extracted item are dropped",
        "D2 `-> T` becomes `-> (r: T)`",
        "D3 assert!/debug_assert! become Verus assert (a proof obligation)",
        "D4 methods of `impl Trait for T` are emitted as inherent methods of T (trait binding dropped)",
        "D5 requires/ensures/invariant/decreases text is inserted; no executable token is changed",
        "D6 a ghost proof block calling template lemmas may be inserted at the start of a body (erased code)",
    ]}
    by_unit = {}
    for o in obligations:
        by_unit.setdefault(o.module, []).append(o)
    # vacuity guard on every run: a false lemma must be rejected, a true one accepted
    c = canary()
    info["canary"] = c
    if not c.get("ok"):
        for o in obligations:
            results[o.name] = {"status": "error", "raw": "Verus canary misbehaved: %s" % c, "seconds": 0, "failed_checks": []}
        return results, info
    for unit, obs in sorted(by_unit.items()):
        tmpl = os.path.join(VERUS_CONTRACTS, unit + ".rs.tmpl")
        gen_path = os.path.join(VERUS_OUT, unit + ".rs")
        try:
            text, infos = verus_extract.generate(tmpl)
        except verus_extract.ExtractError as e:
            for o in obs:
                results[o.name] = {"status": "lost-anchor", "raw": str(e), "seconds": 0, "failed_checks": []}
            info["invocations"].append({"unit": unit, "error": str(e)})
            continue
        with open(gen_path, "w", encoding="utf-8") as f:
            f.write(text)
        info["extraction"].extend([dict(x, unit=unit) for x in infos])
        rlimit = 10 if tier == "quick" else 40
        rc, doc, err, secs = _verus(gen_path, rlimit=rlimit)
        vr = doc.get("verification-results", {})
        info["invocations"].append({"unit": unit, "cmd": "verus %s --output-json --time --no-cheating --rlimit %d" % (gen_path, rlimit),
                                    "exit": rc, "seconds": round(secs, 2), "verified": vr.get("verified"),
                                    "errors": vr.get("errors"),
                                    "generated_sha256": core.sha256_text(text)})
        fns = _breakdown(doc)
        errs = _errors_by_line(err)
        compile_problem = (rc is None) or (not vr) or vr.get("encountered-vir-error") or \
                          (vr.get("encountered-error") and "verified" not in vr)
        # line ranges of extracted fns in the generated file
        ranges = {}
        gen_lines = text.split("\n")
        for x in infos:
            if x["item"].startswith("fn "):
                ranges[x["name"]] = _find_range(gen_lines, x["name"])
        # auxiliary functions (lemmas, spec) must verify: if one fails the machinery is broken
        registered = set(o.fn for o in registry() if o.module == unit)
        aux_failed = [n for n, f in fns.items() if not f.get("success") and n.rsplit("::", 1)[-1] not in registered]
        for o in obs:
            key = [n for n in fns if n.rsplit("::", 1)[-1] == o.fn]
            res = {"seconds": None, "failed_checks": [], "kani_twin": o.twin, "kani_twin_complete": o.twin_complete,
                   "solver": "z3 (via Verus)"}
            if compile_problem:
                res["status"] = "error"
                res["raw"] = err[-3000:]
            elif aux_failed:
                res["status"] = "error"
                res["raw"] = "auxiliary lemma(s) failed: %s\n%s" % (aux_failed, err[-2000:])
            elif len(key) != 1:
                res["status"] = "error"
                res["raw"] = "function %s not found in Verus' function breakdown (%d matches)" % (o.fn, len(key))
            else:
                f = fns[key[0]]
                res["seconds"] = round(f.get("time-micros", 0) / 1e6, 4)
                res["rlimit"] = f.get("rlimit")
                res["checks"] = 1
                if f.get("success"):
                    res["status"] = "success"
                else:
                    lo, hi = ranges.get(o.fn, (0, 0))
                    mine = [(ln, sev, msg) for (ln, sev, msg) in errs if lo <= ln <= hi and sev == "error"]
                    res["failed_checks"] = [{"description": msg, "line_in_generated_file": ln} for ln, sev, msg in mine]
                    res["raw"] = err[-4000:]
                    if any("rlimit" in msg or "resource limit" in msg for _, _, msg in mine):
                        res["status"] = "timeout"
                    else:
                        res["status"] = "failed"
            results[o.name] = res
    return results, info


def _find_range(gen_lines, fn):
    rx = re.compile(r"\bfn\s+" + re.escape(fn) + r"\s*[(<]")
    for i, l in enumerate(gen_lines):
        if rx.search(l):
            # to the next line that starts an item at the same or lower indentation level
            depth = 0
            started = False
            for j in range(i, len(gen_lines)):
                depth += gen_lines[j].count("{") - gen_lines[j].count("}")
                if "{" in gen_lines[j]:
                    started = True
                if started and depth <= 0:
                    return (i + 1, j + 1)
            return (i + 1, len(gen_lines))
    return (0, 0)


def canary():
    """A false lemma must be rejected and a true one accepted, or Verus results are not believed."""
    os.makedirs(VERUS_OUT, exist_ok=True)
    src = os.path.join(VERUS_CONTRACTS, "canary.rs")
    rc, doc, err, secs = _verus(src)
    fns = _breakdown(doc)
    good = [f for n, f in fns.items() if n.endswith("canary_true")]
    bad = [f for n, f in fns.items() if n.endswith("canary_false")]
    ok = bool(good and bad and good[0].get("success") and not bad[0].get("success"))
    return {"ok": ok, "seconds": round(secs, 2), "true_lemma_accepted": bool(good and good[0].get("success")),
            "false_lemma_rejected": bool(bad and not bad[0].get("success"))}
