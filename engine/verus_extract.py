"""Mechanical extractor: copies real items out of /repo/src into a single Verus file per unit.

A unit is described by a template  contracts/verus/<unit>.rs.tmpl : ordinary Verus text (spec
functions, lemmas, `impl` wrappers) plus directives that pull in *verbatim* source text:

  //@struct <file> <Name>
        the `struct <Name> ...` item, copied verbatim (attributes, doc comments, `pub` dropped)
  //@fn <prop> <tier> <file> "<impl header or ->" <fn name> :: <description>
        <contract lines: requires / ensures / decreases, spliced between signature and body>
        //@loop <n>            (optional; the following lines are spliced as the invariant/decreases
        <invariant lines>       block of the n-th loop of the body, counting from 1 in source order)
  //@end

What the extractor changes in the copied text (everything else is byte-for-byte the source; the
SHA-256 of each copied span is recorded in the evidence):
  D1  attributes (`#[...]`), doc comments and visibility qualifiers in front of the item are dropped
  D2  `-> T` in the signature becomes `-> (r: T)` (Verus needs a name for the result)
  D3  `assert!(e)` / `debug_assert!(e)` become `assert(e)`: the run-time assertion becomes a proof
      obligation (stronger, not weaker)
  D4  a method taken from `impl Trait for T` is emitted as an inherent method of `T` (the trait
      binding is dropped; Verus rejects `ensures` on foreign-trait impls)
  D5  contract text (requires/ensures/invariant/decreases) is inserted; no executable token is
      added, removed or reordered
  D6  a ghost `proof { lemma(..); }` block may be inserted right after the body's opening brace (it is
      erased by Verus; it only calls lemmas stated in the template)
A directive whose anchor is missing or ambiguous is a *lost anchor* (ExtractError -> exit 2).
"""
import hashlib
import os
import re

from core import REPO


class ExtractError(Exception):
    pass


# ------------------------------------------------------------------------------------------
# a small Rust scanner: enough to match braces while skipping comments, strings, chars

def _skip_ws_tokens(src, i):
    """Return (kind, end) for the token starting at i: 'comment', 'string', 'char', or None."""
    n = len(src)
    c = src[i]
    if src.startswith("//", i):
        j = src.find("\n", i)
        return "comment", (n if j < 0 else j)
    if src.startswith("/*", i):
        depth, j = 1, i + 2
        while j < n and depth:
            if src.startswith("/*", j):
                depth += 1; j += 2
            elif src.startswith("*/", j):
                depth -= 1; j += 2
            else:
                j += 1
        return "comment", j
    if c == '"' or (c == 'b' and src.startswith('b"', i)):
        j = i + (2 if c == 'b' else 1)
        while j < n:
            if src[j] == "\\":
                j += 2
            elif src[j] == '"':
                return "string", j + 1
            else:
                j += 1
        raise ExtractError("unterminated string literal")
    m = re.match(r'b?r(#*)"', src[i:i + 40])
    if m and (i == 0 or not (src[i - 1].isalnum() or src[i - 1] == "_")):
        hashes = m.group(1)
        close = '"' + hashes
        j = src.find(close, i + len(m.group(0)))
        if j < 0:
            raise ExtractError("unterminated raw string")
        return "string", j + len(close)
    if c == "'":
        # char literal or lifetime
        if i + 1 < n and src[i + 1] == "\\":
            j = src.find("'", i + 2)
            # handle '\''
            if src[i + 2] == "'":
                j = src.find("'", i + 3)
            return "char", j + 1
        if i + 2 < n and src[i + 2] == "'":
            return "char", i + 3
        return None, i + 1   # lifetime: just step over the quote
    return None, i


def match_brace(src, open_idx):
    """src[open_idx] is '{' '(' or '['; return index one past its matching closer."""
    pairs = {"{": "}", "(": ")", "[": "]"}
    stack = [pairs[src[open_idx]]]
    i = open_idx + 1
    n = len(src)
    while i < n:
        kind, j = _skip_ws_tokens(src, i)
        if kind:
            i = j
            continue
        if j != i:
            i = j
            continue
        c = src[i]
        if c in pairs:
            stack.append(pairs[c])
        elif c in ")}]":
            if not stack or stack[-1] != c:
                raise ExtractError("unbalanced delimiters near offset %d" % i)
            stack.pop()
            if not stack:
                return i + 1
        i += 1
    raise ExtractError("unterminated block")


def find_code(src, needle_re, start, end):
    """First regex match in src[start:end] that is not inside a comment/string."""
    i = start
    rx = re.compile(needle_re)
    while i < end:
        kind, j = _skip_ws_tokens(src, i)
        if kind:
            i = j
            continue
        m = rx.match(src, i)
        if m and m.end() <= end:
            return m
        i = max(j, i + 1) if j != i else i + 1
    return None


def find_all_code(src, needle_re, start, end):
    out = []
    i = start
    rx = re.compile(needle_re)
    while i < end:
        kind, j = _skip_ws_tokens(src, i)
        if kind:
            i = j
            continue
        m = rx.match(src, i)
        if m and m.end() <= end:
            out.append(m)
            i = m.end()
            continue
        i = max(j, i + 1) if j != i else i + 1
    return out


def _ident_boundary(src, i):
    return i == 0 or not (src[i - 1].isalnum() or src[i - 1] == "_")


# ------------------------------------------------------------------------------------------

class Extracted:
    def __init__(self):
        self.text = ""
        self.sha256 = ""
        self.file = ""
        self.start_line = 0
        self.end_line = 0
        self.drops = []


def _read(file_rel):
    path = os.path.join(REPO, file_rel)
    if not os.path.exists(path):
        raise ExtractError("lost anchor: file %s does not exist" % file_rel)
    return open(path, encoding="utf-8").read()


def locate_impl(src, header):
    """Return (body_start, body_end) of the unique block whose header line is `header`."""
    if header == "-":
        return 0, len(src)
    hits = []
    for m in re.finditer(re.escape(header), src):
        if not _ident_boundary(src, m.start()):
            continue
        # must be at the start of a line (ignoring indentation) and outside comments
        ls = src.rfind("\n", 0, m.start()) + 1
        if src[ls:m.start()].strip():
            continue
        brace = src.find("{", m.end() - 1)
        if brace < 0:
            continue
        # nothing but generics/where between header and brace
        if "\n\n" in src[m.end():brace] or ";" in src[m.end():brace]:
            continue
        hits.append(brace)
    if len(hits) != 1:
        raise ExtractError("lost anchor: impl header %r found %d times" % (header, len(hits)))
    end = match_brace(src, hits[0])
    return hits[0] + 1, end - 1


def _param_paren(src, k):
    """k indexes '(' or '<' right after the fn name; return the index of the parameter list's '('."""
    if src[k] == "(":
        return k
    depth_a = 0
    while True:
        if src[k] == "<":
            depth_a += 1
        elif src[k] == ">" and src[k - 1] != "-":
            depth_a -= 1
            if depth_a == 0:
                break
        k += 1
    return src.index("(", k)


def extract_fn(file_rel, impl_header, name):
    src = _read(file_rel)
    s, e = locate_impl(src, impl_header)
    # find `fn name` at nesting depth 0 of the impl block
    hits = []
    i = s
    depth = 0
    rx = re.compile(r"fn\s+" + re.escape(name) + r"\s*[(<]")
    while i < e:
        kind, j = _skip_ws_tokens(src, i)
        if kind:
            i = j
            continue
        if j != i:
            i = j
            continue
        c = src[i]
        if c == "{":
            if depth == 0 and impl_header != "-":
                pass
            depth += 1
        elif c == "}":
            depth -= 1
        elif c == "f" and depth == 0 and _ident_boundary(src, i):
            m = rx.match(src, i)
            if m:
                hits.append(i)
                # skip over this fn entirely
                brace = _find_body_brace(src, _param_paren(src, m.end() - 1), e)
                i = match_brace(src, brace)
                continue
        i += 1
    if len(hits) != 1:
        raise ExtractError("lost anchor: fn %s in %r of %s found %d times" % (name, impl_header, file_rel, len(hits)))
    fn_kw = hits[0]
    # qualifiers before `fn` on the same item: pub, pub(..), const, unsafe, async, extern
    ls = fn_kw
    pre = src[src.rfind("\n", 0, fn_kw) + 1:fn_kw]
    qual = re.match(r"^(\s*)((?:pub(?:\s*\([^)]*\))?\s+)?(?:(?:const|unsafe|async)\s+)*)$", pre)
    if not qual:
        raise ExtractError("unsupported construct before `fn %s`: %r" % (name, pre))
    item_start = fn_kw - len(qual.group(2))
    mm = rx.match(src, fn_kw)
    paren = _param_paren(src, mm.end() - 1)
    brace = _find_body_brace(src, paren, e)
    end = match_brace(src, brace)
    ex = Extracted()
    ex.file = file_rel
    ex.signature = src[item_start:brace].rstrip()
    ex.body = src[brace:end]
    ex.raw = src[item_start:end]
    ex.sha256 = hashlib.sha256(ex.raw.encode("utf-8")).hexdigest()
    ex.start_line = src.count("\n", 0, item_start) + 1
    ex.end_line = src.count("\n", 0, end) + 1
    ex.from_trait_impl = (" for " in impl_header)
    ex.assoc_types = {}
    if ex.from_trait_impl:
        # D4: the trait's associated types (`type Item = u8;`) are substituted for `Self::Item`
        for am in re.finditer(r"(?m)^\s*type\s+(\w+)\s*=\s*([^;]+);", src[s:e]):
            ex.assoc_types[am.group(1)] = am.group(2).strip()
        for k, v in ex.assoc_types.items():
            ex.signature = re.sub(r"\bSelf::" + k + r"\b", v, ex.signature)
            ex.body = re.sub(r"\bSelf::" + k + r"\b", v, ex.body)
    return ex


def _find_body_brace(src, paren_idx, limit):
    """From the '(' of the parameter list, find the '{' that opens the fn body."""
    i = match_brace(src, paren_idx)
    while i < limit:
        kind, j = _skip_ws_tokens(src, i)
        if kind:
            i = j
            continue
        c = src[i]
        if c == "{":
            return i
        if c == ";":
            raise ExtractError("fn without body")
        if c in "([":
            i = match_brace(src, i)
            continue
        i += 1
    raise ExtractError("fn body not found")


def extract_struct(file_rel, name):
    src = _read(file_rel)
    hits = [m for m in re.finditer(r"(?m)^(\s*)(pub(?:\s*\([^)]*\))?\s+)?struct\s+" + re.escape(name) + r"\b", src)]
    hits = [m for m in hits if not src[src.rfind("\n", 0, m.start()) + 1:m.start()].strip().startswith("//")]
    if len(hits) != 1:
        raise ExtractError("lost anchor: struct %s in %s found %d times" % (name, file_rel, len(hits)))
    m = hits[0]
    start = m.start() + len(m.group(1))
    # tuple struct `struct X(..);`, unit, or braced
    k = m.end()
    while src[k] not in "({;":
        k += 1
    if src[k] == ";":
        end = k + 1
    elif src[k] == "(":
        end = match_brace(src, k)
        end = src.index(";", end) + 1
    else:
        end = match_brace(src, k)
    ex = Extracted()
    ex.file = file_rel
    ex.raw = src[start:end]
    ex.sha256 = hashlib.sha256(ex.raw.encode("utf-8")).hexdigest()
    ex.start_line = src.count("\n", 0, start) + 1
    ex.end_line = src.count("\n", 0, end) + 1
    text = re.sub(r"^pub(?:\s*\([^)]*\))?\s+", "", ex.raw)
    # D1: attributes are dropped, except derive(Copy, Clone, PartialEq, Eq), which the extracted methods rely on
    pre = src[:start].rstrip().splitlines()
    attrs = []
    while pre and (pre[-1].strip().startswith("#[") or pre[-1].strip().startswith("///")):
        attrs.append(pre.pop().strip())
    keep = []
    for a in attrs:
        m = re.search(r"derive\(([^)]*)\)", a)
        if m:
            for t in [x.strip() for x in m.group(1).split(",")]:
                if t in ("Copy", "Clone", "PartialEq", "Eq") and t not in keep:
                    keep.append(t)
    if keep:
        text = "#[derive(%s)]\n" % ", ".join(keep) + text
    # field visibility is irrelevant to verification and `pub` on fields of a now-private struct is harmless
    ex.text = text
    return ex


# ------------------------------------------------------------------------------------------
# rewrites D1..D5

def rewrite_signature(sig):
    drops = []
    s = sig
    s2 = re.sub(r"^pub(?:\s*\([^)]*\))?\s+", "", s)
    if s2 != s:
        drops.append("D1 visibility qualifier dropped")
        s = s2
    # named return value
    m = re.search(r"\)\s*->\s*(.+?)\s*(where\b.*)?$", s, re.S)
    if m:
        ret = m.group(1).strip()
        where = m.group(2) or ""
        head = s[:m.start()]
        s = head + ") -> (r: " + ret + ")" + ((" " + where) if where else "")
        drops.append("D2 result named r")
    return s, drops


LOOP_RE = r"(?:while|loop|for)\b"


def rewrite_body(body, loop_contracts):
    """Splice invariants after loop headers; rewrite assert!/debug_assert!."""
    drops = []
    out = body
    # D3
    n_assert = 0
    def _assert_sub(src_text):
        nonlocal n_assert
        res = []
        i = 0
        while i < len(src_text):
            kind, j = _skip_ws_tokens(src_text, i)
            if kind:
                res.append(src_text[i:j]); i = j; continue
            m = re.match(r"(debug_assert|assert)!\s*\(", src_text[i:])
            if m and _ident_boundary(src_text, i):
                res.append("assert(")
                n_assert += 1
                i += m.end()
                continue
            if re.match(r"(assert_eq|assert_ne|debug_assert_eq|debug_assert_ne|panic|unreachable|todo|unimplemented|"
                        r"format|println|eprintln|write|writeln|vec|matches)!", src_text[i:]) and _ident_boundary(src_text, i):
                mm = re.match(r"\w+!", src_text[i:])
                raise ExtractError("unsupported construct in extracted body: macro %s" % mm.group(0))
            res.append(src_text[i] if j == i else src_text[i:j])
            i = i + 1 if j == i else j
        return "".join(res)
    out = _assert_sub(out)
    if n_assert:
        drops.append("D3 %d run-time assert macro(s) turned into proof obligations" % n_assert)
    if loop_contracts:
        loops = find_all_code(out, LOOP_RE, 0, len(out))
        loops = [m for m in loops if _ident_boundary(out, m.start())]
        want = max(loop_contracts)
        if len(loops) < want:
            raise ExtractError("lost anchor: body has %d loop(s) but a contract names loop %d" % (len(loops), want))
        # splice from the last loop to the first so offsets stay valid
        for n in sorted(loop_contracts, reverse=True):
            m = loops[n - 1]
            # loop header ends at the '{' opening the loop body
            k = m.end()
            while True:
                kind, j = _skip_ws_tokens(out, k)
                if kind:
                    k = j; continue
                if out[k] in "([":
                    k = match_brace(out, k); continue
                if out[k] == "{":
                    break
                k += 1
            out = out[:k] + "\n" + loop_contracts[n].rstrip() + "\n" + out[k:]
        drops.append("D5 invariants spliced on loop(s) %s" % sorted(loop_contracts))
    return out, drops


FN_DIRECTIVE = re.compile(r'^\s*//@fn\s+(C\d+)\s+(quick|thorough)\s+(\S+)\s+"([^"]*)"\s+(\w+)\s*::\s*(.*)$')
STRUCT_DIRECTIVE = re.compile(r"^\s*//@struct\s+(\S+)\s+(\w+)\s*$")
LOOP_DIRECTIVE = re.compile(r"^\s*//@loop\s+(\d+)\s*$")
PROOF_DIRECTIVE = re.compile(r"^\s*//@proof\s+(.*)$")
TWIN_DIRECTIVE = re.compile(r"^\s*//@twin\s+(\w+)(\s+complete)?\s*$")


def parse_template_registry(path):
    """Only the registry: [(prop, tier, fn name, description, twin, twin_complete)]"""
    out = []
    lines = open(path, encoding="utf-8").read().splitlines()
    for idx, line in enumerate(lines):
        m = FN_DIRECTIVE.match(line)
        if m:
            twin, complete = None, False
            for l2 in lines[idx + 1:]:
                if l2.strip() == "//@end":
                    break
                t = TWIN_DIRECTIVE.match(l2)
                if t:
                    twin, complete = t.group(1), bool(t.group(2))
            out.append((m.group(1), m.group(2), m.group(5), m.group(6), twin, complete, m.group(4)))
    return out


def generate(template_path):
    """Return (verus source text, [info per extracted item])."""
    lines = open(template_path, encoding="utf-8").read().splitlines()
    out = []
    infos = []
    i = 0
    while i < len(lines):
        line = lines[i]
        ms = STRUCT_DIRECTIVE.match(line)
        mf = FN_DIRECTIVE.match(line)
        if ms:
            ex = extract_struct(ms.group(1), ms.group(2))
            out.append(ex.text)
            infos.append({"item": "struct " + ms.group(2), "file": ex.file, "lines": [ex.start_line, ex.end_line],
                          "sha256": ex.sha256, "drops": ["D1 attributes/visibility dropped"]})
            i += 1
            continue
        if mf:
            prop, tier, file_rel, impl_header, name, desc = mf.groups()
            contract = []
            loops = {}
            proofs = []
            cur = contract
            i += 1
            while i < len(lines) and lines[i].strip() != "//@end":
                ml = LOOP_DIRECTIVE.match(lines[i])
                if ml:
                    cur = []
                    loops[int(ml.group(1))] = cur
                elif TWIN_DIRECTIVE.match(lines[i]):
                    pass
                elif PROOF_DIRECTIVE.match(lines[i]):
                    proofs.append(PROOF_DIRECTIVE.match(lines[i]).group(1))
                else:
                    cur.append(lines[i])
                i += 1
            if i >= len(lines):
                raise ExtractError("template error: //@fn %s without //@end" % name)
            i += 1
            ex = extract_fn(file_rel, impl_header, name)
            sig, d1 = rewrite_signature(ex.signature)
            body, d2 = rewrite_body(ex.body, {k: "\n".join(v) for k, v in loops.items()})
            drops = d1 + d2
            if proofs:
                # D6: a ghost `proof { .. }` block (lemma calls only) right after the body's opening brace
                assert body.startswith("{")
                body = "{ proof { " + " ".join(proofs) + " }" + body[1:]
                drops.append("D6 ghost proof block inserted at the start of the body: " + " ".join(proofs))
            if ex.from_trait_impl:
                drops.append("D4 taken from `%s`: emitted as an inherent method" % impl_header)
            start_line = len(out) + 1
            out.append(sig)
            out.extend(contract)
            out.extend(body.split("\n"))
            infos.append({"item": "fn " + name, "impl": impl_header, "file": ex.file,
                          "lines": [ex.start_line, ex.end_line], "sha256": ex.sha256, "drops": drops,
                          "generated_lines": [start_line, len(out)], "prop": prop, "name": name})
            continue
        out.append(line)
        i += 1
    return "\n".join(out) + "\n", infos
