"""Back end A: Kani/CBMC on the real crate, in place.

Builds /repo's *current working tree* with cargo-kani (cfg(kani) turns on the guarded
`mod verif_kani` includes), runs the named harnesses, and parses one verdict per harness.
"""
import os
import re
import time

from core import (REPO, KANI_TARGET, PLAYBACK_DIR, KANI_CONTRACTS, Lock, run, log)

FLAG_GROUPS = {
    # Kani's default NaN check flags legal IEEE NaN results (inf - inf): float obligations run
    # without CBMC's arithmetic-overflow/NaN instrumentation; they assert their own postconditions.
    "default": [],
    "float": ["--no-overflow-checks"],
}

BASE_FLAGS = ["--lib", "-Z", "function-contracts", "-Z", "stubbing", "-Z", "unstable-options",
              "--output-format", "terse"]

CHECKING_RE = re.compile(r"^Thread (\d+): Checking harness (\S+?)\.\.\.\s*$")
THREAD_RE = re.compile(r"^Thread (\d+): ?(.*)$")
SERIAL_CHECKING_RE = re.compile(r"^Checking harness (\S+?)\.\.\.\s*$")
RESULT_RE = re.compile(r"\*\* (\d+) of (\d+) failed")
COVER_RE = re.compile(r"\*\* (\d+) of (\d+) cover properties satisfied")
TIME_RE = re.compile(r"Verification Time: ([0-9.]+)s")
FAILED_CHECK_RE = re.compile(r"^Failed Checks: (.*)$")
FILE_RE = re.compile(r"^\s*File: \"([^\"]+)\", line (\d+), in (\S+)")


def ensure_playback_placeholders():
    """Every contract module includes /verif/.cache/playback/<module>.rs (normally empty)."""
    os.makedirs(PLAYBACK_DIR, exist_ok=True)
    for f in os.listdir(KANI_CONTRACTS):
        if f.endswith(".rs"):
            p = os.path.join(PLAYBACK_DIR, f)
            if not os.path.exists(p):
                open(p, "w").close()


def clear_playback():
    os.makedirs(PLAYBACK_DIR, exist_ok=True)
    for f in os.listdir(KANI_CONTRACTS):
        if f.endswith(".rs"):
            open(os.path.join(PLAYBACK_DIR, f), "w").close()


class HarnessResult:
    def __init__(self, name):
        self.name = name
        self.full_name = None
        self.status = "missing"     # success | failed | timeout | error | missing
        self.checks = 0
        self.failed = 0
        self.covers = None          # (satisfied, total)
        self.seconds = None
        self.failed_checks = []     # [{"description":..., "file":..., "line":..., "function":...}]
        self.raw = ""
        self.solver = "cadical (CBMC default via Kani)"
        self.stubs = []

    def to_json(self):
        d = {"status": self.status, "checks": self.checks, "failed": self.failed,
             "seconds": self.seconds, "failed_checks": self.failed_checks}
        if self.covers is not None:
            d["covers_satisfied"] = "%d/%d" % self.covers
        if self.stubs:
            d["stubs"] = self.stubs
        return d


def _parse_block(res, text):
    res.raw = text
    m = RESULT_RE.search(text)
    if m:
        res.failed = int(m.group(1))
        res.checks = int(m.group(2))
    m = COVER_RE.search(text)
    if m:
        res.covers = (int(m.group(1)), int(m.group(2)))
    m = TIME_RE.search(text)
    if m:
        res.seconds = float(m.group(1))
    lines = text.splitlines()
    for i, l in enumerate(lines):
        fm = FAILED_CHECK_RE.match(l.strip())
        if fm:
            fc = {"description": fm.group(1)}
            if i + 1 < len(lines):
                f2 = FILE_RE.match(lines[i + 1])
                if f2:
                    fc.update({"file": f2.group(1), "line": int(f2.group(2)), "function": f2.group(3)})
            res.failed_checks.append(fc)
    for l in lines:
        s = l.strip()
        if s.startswith("- Stub:") or s.startswith("- Verified stub:"):
            res.stubs.append(s[2:])
    if "VERIFICATION:- SUCCESSFUL" in text:
        res.status = "success"
    elif "VERIFICATION:- FAILED" in text:
        if "timed out" in text:
            res.status = "timeout"
        elif res.failed_checks or res.failed > 0:
            res.status = "failed"
        else:
            res.status = "error"      # CBMC crashed / out of memory / unsupported construct
    else:
        res.status = "error"


def parse_output(out, harness_names):
    """Split the interleaved `-j` output into one block per harness."""
    results = {n: HarnessResult(n) for n in harness_names}
    by_short = {}
    cur_by_thread = {}
    blocks = {}
    cur_thread = None
    serial_cur = None
    for line in out.splitlines():
        m = CHECKING_RE.match(line)
        if m:
            t, full = m.group(1), m.group(2)
            short = full.rsplit("::", 1)[-1]
            cur_by_thread[t] = short
            by_short[short] = full
            blocks.setdefault(short, [])
            cur_thread = t
            continue
        m = SERIAL_CHECKING_RE.match(line)
        if m:
            full = m.group(1)
            short = full.rsplit("::", 1)[-1]
            by_short[short] = full
            blocks.setdefault(short, [])
            serial_cur = short
            cur_thread = None
            continue
        m = THREAD_RE.match(line)
        if m:
            cur_thread = m.group(1)
            rest = m.group(2)
            if cur_thread in cur_by_thread:
                blocks[cur_by_thread[cur_thread]].append(rest)
            continue
        if line.startswith("Manual Harness Summary") or line.startswith("Complete - "):
            cur_thread = None
            serial_cur = None
            continue
        if cur_thread is not None and cur_thread in cur_by_thread:
            blocks[cur_by_thread[cur_thread]].append(line)
        elif serial_cur is not None:
            blocks[serial_cur].append(line)
    for short, lines in blocks.items():
        if short in results:
            results[short].full_name = by_short.get(short)
            _parse_block(results[short], "\n".join(lines))
    return results


# per-process address-space cap: a diverging CBMC run must fail (-> "error", undecided) instead of
# exhausting the machine (measured: one harness took 62 GB before the cap existed)
MEM_CAP = ["prlimit", "--as=%d" % (24 * 1024 ** 3)]


def kani_cmd(harnesses, group, harness_timeout, jobs, extra=None):
    cmd = MEM_CAP + ["cargo", "kani"] + BASE_FLAGS + FLAG_GROUPS[group]
    cmd += ["--harness-timeout", "%ds" % harness_timeout, "-j", str(jobs), "--target-dir", KANI_TARGET]
    if extra:
        cmd += extra
    cmd += ["--exact"]
    for h in harnesses:
        cmd += ["--harness", h]
    return cmd


def run_harnesses(obligations, harness_timeout=300, jobs=16, extra=None):
    """Run the Kani obligations (grouped by flag group). Returns (results dict, build info)."""
    ensure_playback_placeholders()
    results = {}
    info = {"invocations": []}
    groups = {}
    for o in obligations:
        groups.setdefault(o.group.split(',')[0], []).append(o)
    with Lock("kani"):
        for group, obs in sorted(groups.items()):
            names = [o.name for o in obs]
            cmd = kani_cmd([o.full_name for o in obs], group, harness_timeout, min(jobs, max(1, len(names))), extra)
            # overall timeout: build (<= 10 min cold) + every harness could time out in waves
            waves = (len(names) + jobs - 1) // jobs
            overall = 900 + waves * (harness_timeout + 30)
            log("[kani] %d harness(es), flag group '%s' ..." % (len(names), group))
            rc, out, secs = run(cmd, cwd=REPO, env={"CARGO_NET_OFFLINE": "true"}, timeout=overall)
            info["invocations"].append({"cmd": " ".join(cmd[:16]) + " ... (%d --harness)" % len(names),
                                        "exit": rc, "seconds": round(secs, 1)})
            build_failed = ("error: could not compile" in out) or ("error[E" in out)
            if build_failed:
                info["build_error"] = _tail(out, 60)
            parsed = parse_output(out, names)
            solvers = {o.name: getattr(o, "solver", "cadical") for o in obs}
            for n, r in parsed.items():
                r.solver = "%s (via CBMC)" % solvers.get(n, "cadical")
                if build_failed:
                    r.status = "error"
                    r.raw = "build failed"
                results[n] = r
            info.setdefault("raw_tail", []).append(_tail(out, 25))
    return results, info


def _tail(s, n):
    return "\n".join(s.splitlines()[-n:])


# ------------------------------------------------------------------------------------------
# counterexample extraction + native replay (Kani concrete playback)

PLAYBACK_BLOCK_RE = re.compile(r"```\s*\n(.*?)```", re.S)


def concrete_playback(ob, harness_timeout=900):
    """Re-run one failing harness with --concrete-playback=print; return (test source or None, raw)."""
    cmd = MEM_CAP + ["cargo", "kani", "--lib", "-Z", "function-contracts", "-Z", "stubbing", "-Z", "unstable-options",
           "-Z", "concrete-playback", "--concrete-playback=print"] + FLAG_GROUPS[ob.group.split(",")[0]]
    cmd += ["--harness-timeout", "%ds" % harness_timeout, "--target-dir", KANI_TARGET, "--exact",
            "--harness", ob.full_name]
    with Lock("kani"):
        # VERIF_NO_COVER compiles the vacuity covers out: Kani emits one playback test per harness and
        # would otherwise pick a satisfied cover instead of the failed assertion
        rc, out, secs = run(cmd, cwd=REPO, env={"CARGO_NET_OFFLINE": "true", "VERIF_NO_COVER": "1"},
                            timeout=900 + harness_timeout)
    # Kani prints one unit test per failed check AND per satisfied cover; keep the failed checks only
    blocks = re.findall(r"Concrete playback unit test for `[^`]*`:\s*```\s*\n(.*?)```", out, re.S)
    tests = [b for b in blocks if "Check for `cover`" not in b]
    if not tests:
        return None, out
    return "\n".join(tests), out


def native_replay(ob, test_src, timeout=1800):
    """Run the counterexample natively against the real code: `cargo kani playback` compiles /repo's
    working tree with the ordinary code generator (cfg(kani) on, so the harness module exists) and runs
    the generated unit test, which feeds Kani's concrete values to the harness. A failing test
    (panic / failed assert) confirms the violation on the real code."""
    names = re.findall(r"fn (kani_concrete_playback_\w+)", test_src)
    if not names:
        return {"ran": False, "reason": "no test name in playback source"}
    # all generated tests of one harness share the prefix kani_concrete_playback_<harness>_
    test_name = "kani_concrete_playback_" + ob.name + "_"
    path = os.path.join(PLAYBACK_DIR, ob.module + ".rs")
    with Lock("kani"):
        clear_playback()
        with open(path, "w") as f:
            f.write("use super::*;\n" + test_src + "\n")
        try:
            cmd = ["cargo", "kani", "playback", "-Z", "concrete-playback", "--lib", "--", test_name]
            rc, out, secs = run(cmd, cwd=REPO, env={"CARGO_NET_OFFLINE": "true", "RUST_BACKTRACE": "0",
                                                    "CARGO_TARGET_DIR": KANI_TARGET + "-playback"},
                                timeout=timeout)
        finally:
            clear_playback()
    ran = bool(re.search(r"running [1-9]\d* tests?", out))
    failed = ran and ("test result: FAILED" in out or "... FAILED" in out)
    passed = ran and ("test result: ok" in out) and not failed
    return {"ran": ran, "test": test_name, "reproduced_on_real_code": failed, "passed_natively": passed,
            "exit": rc, "seconds": round(secs, 1), "output_tail": _tail(out, 40)}
