#!/usr/bin/env python3
"""Writes /verif/MANIFEST.json from the tables below (run by hand after changing the claimed set)."""
import json
import os
import subprocess
import sys

sys.path.insert(0, os.path.dirname(os.path.abspath(__file__)))
from propmeta import PROPS  # noqa: E402

TECH = ("contract-based deductive verification: Kani function contracts / full-domain harnesses (CBMC) on the real "
        "crate in place + Verus on functions extracted verbatim on every run")

CLAIMS = {
    "C11": {
        "text": "PARTIAL SCOPE. Proves, for all 2^64 operand pairs of every integer operator and every pair of float bit "
                "patterns, that BinOpKind::const_eval / UnOpKind::const_eval (the single operator table shared by the const "
                "folder, the const-var evaluator and the VM) equal spec functions written from the property text: wrapping "
                "32-bit arithmetic, truncating / and %, shift counts mod 32, arithmetic vs logical right shift, IEEE single "
                "+ - * / and comparisons, C-style ! && ||, truncating casts and sigil reads, literal<->value round trip of the folder, and that x/0 "
                "and x%0 have no compile-time value. "
                "Also negate_comparison and op= -> binop. This is the only place where a wrong shared operator table - "
                "invisible to tests that compare the folder with the VM - is decided against an independent spec.",
        "note": "Not decided: the two tree walkers (folding order, ternary selection, const chains, cycles), float % and "
                "transcendental functions. Division: full-domain equality uses Rust's i32 `/` `%` as trusted primitive (z3/cvc5), "
                "plus operator-independent sign/magnitude rules (full domain) and the defining equation for |a|,|b|<=4096 (bounded). "
                "Float * and /: Rust's f32 operator is the trusted primitive. Trusted: Kani/CBMC, solvers, spec functions in "
                "/verif/contracts/kani/const_simplify.rs.",
        "design_ref": "DESIGN.md section 5, C11",
    },
    "C14": {
        "text": "PARTIAL SCOPE (second sentence of the property only). Proves the set algebra of BitSet32 (Verus, unbounded, on the "
                "verbatim text; Kani for with_upper_bound/complement/iterator), and for the helpers elaborate_diff_switches is built "
                "from: the flag partition difficulty_bits/aux_bits, explicit_case_bitmasks partitions {0..n} (exactly one emitted copy applies per difficulty), "
                "select_diff_switch_case is the explicit case at the largest index <= d and is constant on every mask (the copy "
                "carries that difficulty's values), update computes (n, E), switch_from_explicit_cases is its inverse. n <= 8 is "
                "the structural maximum, so these are complete.",
        "note": "NOT decided: label string <-> mask (DiffFlagDefs: two BTreeMaps, out of reach of both back ends); "
                "elaborate_diff_switches / recognize_diff_switch themselves (aux bits); explicit_difficulty_cases (CBMC out of memory). "
                "A change that breaks the property in those places is not detected.",
        "design_ref": "DESIGN.md section 5, C14",
    },
    "C17": {
        "text": "PARTIAL SCOPE. Proves encode(decode(p)) == p for every pixel value of every supported format (all 65 536 RGB565 and "
                "ARGB4444 values, all 256 GRAY8 values through the f32 formula, all 2^32 ARGB8888 values), modularly: "
                "change_bit_depth carries a Kani function contract on the real function, proved per instantiation and used via "
                "stub_verified by the callers; documented bit-field positions; format number -> format -> bytes per pixel; and the "
                "real Rc<Vec<u8>>/Cursor buffer path for 1-2 pixels (bounded).",
        "note": "Not decided: offset padding/cropping and PNG I/O (image crate), image-source precedence and per-path queues "
                "(IndexMap code in formats/anm). Trusted: Kani/CBMC, byteorder as executed by CBMC.",
        "design_ref": "DESIGN.md section 5, C17",
    },
}

CLAIMS.update({
    "C03": {
        "text": "PARTIAL SCOPE (instruction headers of all nine instruction formats). Proves, for every i32 time, u16 opcode, mask, "
                "difficulty, extra argument and every argument blob of the stated lengths: if write_instr returns Ok then read_instr "
                "of the written bytes returns the same instruction field for field, consumes exactly instr_size bytes, and the stored "
                "size field equals the true size as the reader interprets it (blob length symbolic up to 70000); values that do not "
                "fit are rejected by guards whose own contract (Ok(v) iff representable) is proved on the real function; the end marker "
                "is recognised. Also: jump-offset encodings (encode_label/decode_label inverse for every pair of offsets below 2^31, "
                "four encodings), the ANM entry header (both layouts, every field, with its own guard), ANM sprite entries and STD quads "
                "(bit-exact floats). Tests only use everyday values; the narrowing casts this found were silent (exit 0).",
        "note": "Not decided: the remaining file-level tables/counts/offsets/strings (anm write_entry offset patching, std object/instance "
                "tables, msg script table, ecl sub/timeline tables and string lists: IndexMap + seek code), argument values inside the blob (C12), "
                "the script-level read/write loops, diagnostics rendering. Round trips use blobs of concrete length 4 (quick) and 0, 12 "
                "(thorough): a symbolic length makes the reader's EOF path reachable and CBMC diverges. Known finding: TH06/07 timeline "
                "instruction (time -1, arg0 4) is spelled like the end marker. Trusted: stubs for fmt::format, ErrorReported::new, "
                "nice_display_path; the guard stubs cut non-fitting paths (their rejection is proved separately).",
        "design_ref": "DESIGN.md section 5, C03",
    },
    "C09": {
        "text": "PARTIAL SCOPE (second sentence of the property, operator expressions only). Proves for all 19 binary and 14 unary "
                "operators and every operand value of every type the documented operator classes admit: the type the checker's table "
                "(binop_ty_from_arg_ty / unop_ty_from_arg_ty) assigns equals the type of the value const_eval produces, the evaluator "
                "never reaches its type-error panic on accepted combinations, and the operator classes are the documented ones.",
        "note": "NOT decided: the first sentence (accepted exactly when well-typed, wherever the construct sits) - type_check::Visitor / "
                "ExprTypeChecker need a CompilerContext and emit diagnostics; types of variables, calls, ternaries, diff switches.",
        "design_ref": "DESIGN.md section 5, C09",
    },
    "C13": {
        "text": "PARTIAL SCOPE. Proves the label rules on the real TimeAndDifficultyHelper for all i32 times: scripts start at 0, `N:` "
                "sets, `+N:` adds (wrapping), non-label statements inherit, entering/leaving blocks and leaving statements never change "
                "the time; and the inverse lemma on the real LabelEmitter: for every (previous time, stored time) pair - negative, "
                "decreasing, sign-crossing, wrapping - the emitted labels read back by those rules give exactly the stored time, and an "
                "offset label is emitted once, where the interpreted time equals its stated time.",
        "note": "Not decided: the Visitor that drives the helper over nested blocks (IdMap), that lowering copies the time into RawInstr "
                "unchanged, non-literal `+N` (const folding is C11), generate_label_at_offset (BTreeSet). Every AST statement built by "
                "a harness is mem::forget-ed (drop glue of the recursive AST diverges in CBMC).",
        "design_ref": "DESIGN.md section 5, C13",
    },
    "C15": {
        "text": "PARTIAL SCOPE (byte-level leaves). Proves the mask stream step and closed form, xor masking being bytewise and an "
                "involution, null_pad (positive multiple of the block, prefix kept, NUL tail; also unbounded by Verus), encode_fixed_size "
                "(accepts exactly when the ENCODED bytes plus a NUL fit, whatever the transcoder returns), trim_first_nul "
                "(exact prefix before the first NUL), write_cstring/read_cstring_blockwise round trip, and - leaves composed in the "
                "harness in encode_args/decode_args order - that block-padded and fixed-buffer (with/without terminator) strings come "
                "back byte for byte for every NUL-free text and every mask triple.",
        "note": "ASSUMED, not verified: Shift-JIS transcoding (encoding_rs), the order in which encode_args/decode_args call the leaves "
                "and the furigana state (inside functions neither back end can reach; a reordering there is NOT detected), Pascal length "
                "prefix, mission.rs cipher, error reporting for unencodable/too long strings. Kani harnesses are bounded in length "
                "(<= 6 bytes) and labelled bounded.",
        "design_ref": "DESIGN.md section 5, C15",
    },
})

CLAIMS.update({
    "C16": {
        "text": "PARTIAL SCOPE, SMALL (instruction-header level only). Proves that read_instr of each of the nine instruction formats, "
                "given ARBITRARY header and argument bytes with the size field at values below, at and above the header size (and the "
                "sign-extension value 0xFFFF), returns Ok or Err and never panics - no `size - header` underflow, no failed assert, no "
                "capacity overflow from a sign-extended size - and that decode_label never panics on an arbitrary 32-bit jump argument. "
                "These obligations found three reader panics and one multiplication overflow on the pinned tree, now fixed.",
        "note": "NOT decided - the bulk of the property: file-level readers, decompilation passes, image extraction, EOF/io::Error paths, "
                "termination and memory. A change that makes any of those crash is not detected. Size-field values are enumerated "
                "(concrete) because a symbolic size makes the EOF path reachable, which CBMC cannot get through.",
        "design_ref": "DESIGN.md section 5, C16",
    },
})

NOT_APPLICABLE = {
    "C01": "whole-pipeline relation between decompile and compile across the LALR parser, the formatter and five file formats; no function in the chain has a contract-expressible spec and neither back end can execute it. Its codec ingredients are claimed separately (C03 C13 C14 C15 C17).",
    "C02": "needs an operational semantics of source and target and a simulation proof over 1400 lines of visitor/closure code over CompilerContext (HashMaps, AST); outside Verus' subset and CBMC's reach. The shared operator semantics is C11.",
    "C03": "(being built) instruction-header writers/readers; see DESIGN.md",
    "C04": "totality of lexer, generated LALR parser, resolver, type checker and lowering over all byte strings; panic-freedom contracts would have to thread invariants through every expect() in ~15k lines neither back end can ingest.",
    "C05": "assign_registers needs CompilerContext/EnumMap/HashMap state; get_explicitly_used_regs builds a BTreeMap - CBMC gave no verdict in 600 s on one- and two-argument instructions, Verus rejects filter_map/flat_map.",
    "C06": "AST-to-AST desugaring whose correctness is a bisimulation under the test VM; visitor code over recursive Sp<Stmt>.",
    "C07": "same obstacle as C06 for block recovery; its preconditions are predicates over HashMaps of label reference counts.",
    "C08": "both directions are string machinery (std::fmt, generated LALR tables, logos lexer); Verus has no str byte reasoning and CBMC does not survive format!.",
    "C09": "(being built) operator typing table vs evaluator; see DESIGN.md",
    "C10": "resolver state is a stack of HashMap ribs keyed by interned identifiers, driven by an AST visitor; renaming invariance is a relational property over two whole compilations.",
    "C12": "encode_args / decode_args_with_abi are monolithic matches over a heap Vec<ArgEncoding> behind &dyn LanguageHooks and &Defs; CBMC explores the string arm for integer signatures and did not finish a one-argument encode in 400 s; Verus cannot parse them (peekable, by_ref, closures).",
    "C13": "(being built) time-label rules; see DESIGN.md",
    "C15": "(being built) string byte leaves; see DESIGN.md",
    "C16": "every 'reader returns Err instead of panicking' obligation must execute the reader's error path (io::Error + diagnostics), which CBMC does not terminate on here; the generic trait method that would need a stub cannot be stubbed.",
    "C18": "offsets come from gather_label_info, which needs encode_args (C12) under a closure over IndexMap; locals from assign_registers (C05); the JSON writer is serde.",
    "C19": "a statement about hash-seed schedules across process launches; a function contract cannot mention the seed, Kani has no model of RandomState, and Verus' HashMap spec is an unordered map (it would assume the conclusion).",
    "C20": "ids are computed by building AST expressions, const-evaluating them and separately re-deriving ids in the writers from IndexMap order; no leaf function carries the rule.",
}


def main():
    checks = []
    for pid in sorted(CLAIMS):
        c = CLAIMS[pid]
        checks.append({
            "property_id": pid,
            "quick_cmd": "./check %s --tier quick" % pid,
            "thorough_cmd": "./check %s --tier thorough" % pid,
            "evidence_file": "/verif/evidence/%s.json" % pid,
            "replay_cmd_template": "./check %s --replay {path}" % pid,
            "engine": "contracts",
            "level_claimed": {"category": "proof", "text": c["text"], "design_ref": c["design_ref"]},
            "level_note": c["note"],
            "technique": TECH,
        })
    commits = subprocess.run(["git", "-C", "/repo", "log", "--format=%h %s", "2348c84..HEAD"],
                             stdout=subprocess.PIPE).stdout.decode().splitlines()
    hook_commits = [l for l in commits if l.split(" ", 1)[1].startswith("verif hooks")]
    man = {
        "version": 1,
        "setup_cmd": "./check --setup",
        "hooks": {
            "guard": "cfg(kani)",
            "enable": "cargo-kani sets --cfg kani itself (verification runs and `cargo kani playback` replays); no ordinary build "
                      "sets it. Guarded lines: `#[cfg(kani)] #[path = \"/verif/contracts/kani/<m>.rs\"] mod verif_kani;` at the end "
                      "of each file under contract, and `#[cfg_attr(kani, kani::requires/ensures(..))]` on handle_shift_rhs and "
                      "change_bit_depth.",
            "baseline_off_cmd": "/verif/engine/baseline_off.sh",
            "source_commits": hook_commits,
            "add_only": True,
        },
        "engines": [{
            "name": "contracts", "path": "/verif/check",
            "serves_properties": sorted(CLAIMS),
            "kind_free_text": "python3 driver; back end A = Kani 0.68/CBMC on /repo in place (harnesses + function contracts in "
                              "/verif/contracts/kani), back end B = Verus on functions extracted verbatim per run "
                              "(/verif/contracts/verus/*.rs.tmpl); counterexamples replayed natively with `cargo kani playback`",
        }],
        "checks": checks,
        "not_applicable": [{"property_id": k, "reason": v} for k, v in sorted(NOT_APPLICABLE.items()) if k not in CLAIMS],
        "notes": "Every check is partial in scope by design (see level_claimed.text / level_note and DESIGN.md section 0): it proves "
                 "named obligations on the functions the property's mechanism lives in; exit 2 means undecided (never an alarm).",
    }
    with open("/verif/MANIFEST.json", "w") as f:
        json.dump(man, f, indent=1)
        f.write("\n")
    print("wrote MANIFEST.json: %d checks, %d not_applicable" % (len(checks), len(man["not_applicable"])))


if __name__ == "__main__":
    main()
