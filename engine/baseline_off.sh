#!/bin/bash
# Runs the repository's pinned test-suite with the verification guard OFF (ordinary toolchain: cfg(kani) is
# never set, so the `mod verif_kani` includes and the contract attributes do not exist for rustc) and compares
# the outcome with the stable baseline recorded in /root/.vp/BASELINE.json.
set -u
cd /repo || exit 2
rm -f target/nextest/pb/junit.xml
CARGO_NET_OFFLINE=true cargo nextest run --workspace --no-fail-fast --tool-config-file pb:/w/lib/nextest.toml --profile pb --test-threads 8 --offline >/tmp/baseline_off.log 2>&1
python3 - <<'PY'
import json, sys
import xml.etree.ElementTree as ET
b = json.load(open('/root/.vp/BASELINE.json'))
try:
    t = ET.parse('/repo/target/nextest/pb/junit.xml')
except Exception as e:
    print("no junit output:", e); sys.exit(2)
res = {}
for tc in t.iter('testcase'):
    name = tc.get('classname') + '::' + tc.get('name')
    res[name] = not (tc.find('failure') is not None or tc.find('error') is not None)
bad = [s for s in b['stable_pass'] if not res.get(s, False)]
print("stable_pass tests: %d, passing now: %d" % (len(b['stable_pass']), len(b['stable_pass']) - len(bad)))
for s in bad[:20]:
    print("  NOT PASSING:", s)
sys.exit(1 if bad else 0)
PY
